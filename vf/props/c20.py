"""C20 - state trackers replay packet histories; helper value types obey
their laws.

Everything is executed on the real pyCraft objects.  The trackers (player
list, maps, and every attribute-alias view of a real packet class) are
explored as explicit-state machines: a state is the canonical form of the REAL
object, a transition applies one real packet / one real attribute assignment,
and a boring dict/list reference written here is stepped in lock-step and
compared after every transition.  Flag names, records, vectors and the
position update are exhaustive products over stated alphabets.
"""
import hashlib
import itertools
import random
from fractions import Fraction

from vf.runner import use_repo, ToolError, h64

LEVEL = 'model_checking'
RULE = (
    'Player list: BFS to fixpoint from PlayerList() and PlayerList(item) over '
    'every PlayerListItemPacket of one action type out of {add, update game '
    'mode, update latency, update display name, remove} carrying 0, 1 or 2 '
    'actions (all ordered pairs, so the same UUID twice with equal and with '
    'different values) or 3 actions whose first and last name the same UUID '
    '(the same UUID three times in every value combination, or twice around '
    'an action for the other UUID; first 2 values), over 2 UUIDs x 2 values '
    '(3 values thorough); each explored history is replayed on a fresh real '
    'tracker and '
    'on a dict reference, compared after every packet; plus seeded walks of '
    '200 packets; plus EVERY history of 1..4 (thorough 1..5) single-action '
    'packets over {two different adds, one update of each field kind, '
    'remove} of one UUID and {add, remove} of a bystander, each replayed from '
    'scratch in lock-step (add after remove after add, updates before/after '
    'add and after remove, without relying on canonical-state merging).  '
    'Maps: the reference writes pixel i of the array at (offset_x + i mod '
    'width, offset_z + i div width) for every i of the pixel array, whatever '
    'height the packet declares, and compares the WHOLE pixel buffer and all '
    'other fields after every packet; only updates whose pixels all lie '
    'inside the map are in the alphabets (the harness refuses others).  '
    'MapSet(Map 4x4 id 0, Map 4x4 id 1) under apply_to_map_set with every '
    'patch rectangle w,h in 1..2 at every offset that fits x 2 pixel '
    'patterns x 2 ids and pixel-less packets, BFS depth 2 (thorough: also '
    'depth 3 on the one-id alphabet); empty MapSet (128x128 creation path) '
    'depth 2 on corner rectangles; apply_to_map on Map 4x4 and Map 5x3.  '
    'Update shapes: apply_to_map on a Map 4x3 with EVERY update (width 1..5, '
    'pixel count n >= 1, offset) whose pixels lie inside the map - '
    'rectangular and ragged (n not a multiple of width: shorter than one '
    'row, one-and-a-bit rows, k rows plus/minus 1), width 1, widths larger '
    'than the pixel count, touching the last column/row, ending exactly at '
    'the bottom-right border - declared height = rows carried, pixel values '
    'specific to the update and never 0, BFS depth 2 = all ordered pairs, '
    'i.e. every overlapping pair in both orders (thorough: also Map 5x4, '
    'width 1..6); the same alphabet with every other declared height out of '
    '{0, n div width, rows + 1}, depth 1; empty MapSet (128x128) with widths '
    '{1, 3, 128, 255, +1 seed value; thorough also 2, 5, 127} x pixel counts '
    '{1, w-1, w, w+1, 2w-1, 2w, 2w+1, 3w+1} (width 255: {1, 2, 127, 128}) '
    'x anchors {top-left, ending '
    'exactly at the last column, at the last row, at both, one short of '
    'both, interior} that stay inside, BFS depth 2 and walks of 200; whole-'
    'map updates (128x128 pixels, one pixel less, 127 rows plus 1, exactly '
    'the last row / last column) depth 2.  '
    'Position: 32 flag sets x 3 priors (zero, and two non-zero states, one '
    'with angles at 0.125 / 359.875) x (every single-axis value + full '
    'product of a value set + packets that make yaw, pitch or both END - as '
    'an absolute value or as prior + delta when that axis is relative - '
    'exactly on each of {-720, -360, 0, 360, 720, 1080} and 1/8 below and '
    'above each).  Flags: every int 0..255 x every BitFieldEnum '
    'in the library and every generated one with <= 3 (thorough 4) members '
    'A..D over {0,1,2,3,4,8,0x7F,0x80,+1 seed value}; plain Enums over '
    '-1..255.  Records: the classes are grouped into inheritance families '
    'and every family is run in one process in three orders of first use, '
    'each order in freshly forked workers (base classes first; derived '
    'classes first; a bare MutableRecord() first, then base classes first - '
    'the last two with the value product limited to classes of <= 2 '
    'slots); for every concrete MutableRecord class of the '
    'library (+ generated ones with inherited/str slots) all ordered pairs '
    'of instances (full product of a value alphabet for small classes, '
    'otherwise a base record, every record differing from it in exactly one '
    'field, and constant records; plus partially assigned ones), a second '
    'separately built record for every field tuple (must be equal and hash '
    'equally), and every (slot, value) assignment to a record that has '
    'already been hashed and compared (must then equal, and hash like, a '
    'fresh record with the new fields and differ from one with the old).  '
    'Vectors: every operator (+, - with every ordered pair of Vector '
    'classes; unary -; *, reflected *, /, // with int, float and bool '
    'scalars incl. 0, 1, 1.0, -1.0, 0.0) over all vectors of a component '
    'alphabet mixing ints and floats (incl. 0 and 0.0, so identity '
    'shortcuts that skip int->float promotion show); result must be of the '
    'left (vector) operand\'s class with exactly the component-wise values '
    'and component types.  Aliases: '
    'BFS to fixpoint over assignments (through the alias and to the '
    'underlying attributes) for every alias of real packet classes and a '
    'synthetic host using every helper of minecraft/utility.py; a read of '
    'an alias is judged once all its source attributes are assigned.  A '
    'case is non-trivial when it executes '
    'at least one pyCraft operation; distinct = distinct (machine, history) '
    'or distinct input tuple, enumerated without repetition.')
ASSUMPTIONS = [
    'a tracker\'s future behaviour depends only on its canonical form '
    '(all slots / __dict__ entries, recursively); this is what lets the '
    'fixpoint stand for histories of any length (200-step walks and the '
    'exhaustive short directed histories re-check it without merging)',
    'angles are judged on values for which prior + delta and the wrap are '
    'exact in binary64 (multiples of 1/8, |v| < 2^20); float rounding '
    'artefacts such as (-1e-20) % 360 == 360.0 are recorded in the evidence '
    'as an observation, not judged',
    'map updates with a pixel outside the map are not prescribed by the '
    'statement and are not executed; an update is inside when every pixel '
    'position offset + (i mod width, i div width) is - so a width larger '
    'than the pixel count is fine as long as the pixels present fit; the '
    'declared height of a packet is not part of the prescribed placement '
    '(pyCraft\'s own test applies width=1, height=0 with one pixel)',
    'all actions of one player-list packet have the packet\'s action type '
    '(the wire format cannot express anything else)',
    'record classes influence each other only within an inheritance '
    'family or through MutableRecord itself (the record phase runs before '
    'the check\'s parent process has touched any record, so each order of '
    'first use starts from untouched classes)',
    'records with unset slots are outside "compare field-wise"; they are '
    'executed and reported as outcomes, and only "== returned True => equal '
    'hash" is judged for them',
    'a flag value is representable iff it is an OR of members defined in the '
    'class\'s own namespace (UPPERCASE int attributes); for unrepresentable '
    'values None is accepted and a returned string must still parse back; '
    'the literal \'0\' is accepted for value 0 only when the class defines '
    'no zero-valued member (otherwise that member is the name of 0)',
    'deleting through an alias, the exception type raised by a read-only '
    '`descriptor`, repr() text and iteration order across inherited slots '
    'are executed but not judged: the statement does not define them',
]

UNSET = '<unset>'
MAX_VIOL = 16          # stop exploring one machine after this many failures


# ---------------------------------------------------------------------------
# generic helpers (no pyCraft code)

_SLOTS = {}


def own_slots(cls):
    """All slot names of cls, base classes first (independent walk)."""
    out = _SLOTS.get(cls)
    if out is None:
        out = []
        for k in reversed(cls.__mro__):
            s = k.__dict__.get('__slots__', ())
            if isinstance(s, str):
                s = (s,)
            out += [n for n in s if n not in ('__dict__', '__weakref__')]
        _SLOTS[cls] = out
    return out


_SCALARS = (int, str, float, bool, type(None))


def canon(o, depth=0):
    """Canonical form of an arbitrary object graph; every slot and every
    __dict__ entry takes part, so a new field refines the state."""
    t = type(o)
    if t in _SCALARS:
        return (t.__name__, o)
    if depth > 16:
        raise ToolError('canon: object graph too deep')
    if isinstance(o, (bytes, bytearray)):
        b = bytes(o)
        body = b.hex() if len(b) <= 64 else \
            hashlib.blake2b(b, digest_size=16).hexdigest()
        return (t.__name__, len(b), body)
    if isinstance(o, (list, tuple)):
        return (t.__name__,) + tuple([canon(x, depth + 1) for x in o])
    if isinstance(o, dict):
        items = [(canon(k, depth + 1), canon(v, depth + 1))
                 for k, v in o.items()]
        try:
            items.sort()
        except TypeError:
            items.sort(key=repr)
        return ('dict',) + tuple(items)
    if isinstance(o, (set, frozenset)):
        return ('set',) + tuple(sorted((canon(x, depth + 1) for x in o),
                                       key=repr))
    if isinstance(o, _SCALARS):         # subclasses of the scalar types
        return (t.__name__, repr(o))
    if isinstance(o, type):
        return ('class', o.__qualname__)
    d = getattr(o, '__dict__', None)
    slots = own_slots(t)
    if callable(o) and d is None and not slots:
        return ('callable', getattr(o, '__qualname__', t.__name__))
    names = slots + sorted(d) if d else slots
    return ('obj', t.__qualname__) + tuple(
        [(n, canon(getattr(o, n), depth + 1) if hasattr(o, n) else UNSET)
         for n in names])


def same(a, b):
    """Same value of the same type (1 is not 1.0 is not True)."""
    if a is UNSET or b is UNSET:
        return a is b
    if type(a) is not type(b):
        return False
    if isinstance(a, (list, tuple)):
        return len(a) == len(b) and all(same(x, y) for x, y in zip(a, b))
    if isinstance(a, float):
        return repr(a) == repr(b)
    return a == b


def tolist(x):
    """tuples -> lists, recursively (what a JSON round trip does)."""
    if isinstance(x, (list, tuple)):
        return [tolist(v) for v in x]
    return x


def brief(x, n=300):
    s = repr(x)
    return s if len(s) <= n else s[:n] + '...'


_LIB = []


def lib():
    """Import the library under test; returns a namespace of what is used."""
    if _LIB:
        return _LIB[0]
    use_repo()
    import minecraft
    from minecraft import utility
    from minecraft.networking import types
    from minecraft.networking.connection import ConnectionContext
    from minecraft.networking.packets import Packet
    from minecraft.networking.packets.clientbound import play as cplay
    from minecraft.networking.packets.serverbound import play as splay

    class NS(object):
        pass
    ns = NS()
    ns.mc, ns.utility, ns.types, ns.Context = minecraft, utility, types, \
        ConnectionContext
    ns.Packet, ns.cplay, ns.splay = Packet, cplay, splay
    _LIB.append(ns)
    return ns


def walk_subclasses(c):
    out = []
    for s in c.__subclasses__():
        if s not in out:
            out.append(s)
        for t in walk_subclasses(s):
            if t not in out:
                out.append(t)
    return out


def library_classes(base):
    """Subclasses of base defined at class/module level inside minecraft."""
    return sorted((c for c in walk_subclasses(base)
                   if c.__module__.startswith('minecraft.')
                   and '<locals>' not in c.__qualname__),
                  key=lambda c: (c.__module__, c.__qualname__))


# ---------------------------------------------------------------------------
# explicit-state engine

class Machine(object):
    """A real object + a reference, stepped together.

    alphabet : list of JSON-able concrete operations
    n_inits  : number of initial configurations
    fresh(i) -> (real, ref);  step(real, ref, op, ctx);  diff(real, ref, ctx)
    -> None | text;  key(real) -> canonical form."""
    name = '?'
    n_inits = 1
    alphabet = ()
    snapshots = False   # successors from a deep copy instead of a full replay

    def key(self, real):
        return canon(real)

    def label(self, op):
        return brief(op, 120)

    def opkind(self, op):
        return ''


class _Quiet(object):
    """Stands in for the context while an already-judged prefix is re-run."""
    @staticmethod
    def cls(label, n=1):
        pass
    outcome = cls


QUIET = _Quiet()


def report(ctx, m, init, done, why, sink):
    kind = m.opkind(done[-1]) if done else 'initially'
    key = '%s: %s%s' % (m.name, why[0], (' after ' + kind) if kind else '')
    what = ('%s: after replaying [%s] from initial configuration %d the '
            'real object and the reference disagree: %s' % (
                m.name, ' ; '.join(m.label(o) for o in done[-8:]), init,
                why[1]))
    case = {'part': 'machine', 'machine': m.name, 'init': init,
            'ops': tolist(done)}
    if sink is None:
        ctx.violation(key, what, case)
    else:
        sink.append([key, what, case])


def snapshot(m, init, ops):
    """Replay an already-judged history once; -> a pickled (real, ref) from
    which fresh deep copies are made, or None when that is not possible."""
    import pickle
    try:
        real, ref = m.fresh(init)
        for op in ops:
            m.step(real, ref, op, QUIET)
        blob = pickle.dumps((real, ref), pickle.HIGHEST_PROTOCOL)
        back = pickle.loads(blob)
        if m.key(back[0]) != m.key(real) or m.diff(back[0], back[1], QUIET):
            return None
        return blob
    except ToolError:
        raise
    except Exception:
        return None


def one_step(ctx, m, init, ops, op, blob, sink):
    """Apply `op` to a fresh deep copy of the state reached by `ops`."""
    import pickle
    ctx.traces += 1
    try:
        real, ref = pickle.loads(blob)
        m.step(real, ref, op, ctx)
        why = m.diff(real, ref, ctx)
    except ToolError:
        raise
    except Exception as e:
        why = ('raises %s' % type(e).__name__,
               'unexpected %s: %s' % (type(e).__name__, e))
    if why:
        report(ctx, m, init, list(ops) + [op], why, sink)
        return None
    return m.key(real)


def lockstep(ctx, m, init, ops, sink=None, every=True):
    """Replay `ops` from initial configuration `init` on fresh objects,
    comparing with the reference after every transition (every=False: only
    after the last one - used by the search, where the prefix is a history
    whose every transition was compared when it was explored).
    -> canonical key of the final real state, or None after a violation.
    diff() returns None or (kind, text); kind is the stable part of the
    violation key.  With `sink`, failures are appended there (the parent
    sorts them so that the reported case does not depend on worker order)."""
    ctx.traces += 1
    done = []
    try:
        real, ref = m.fresh(init)
        why = m.diff(real, ref, ctx) if every or not ops else None
        last = len(ops) - 1
        for n, op in enumerate(ops):
            if why:
                break
            done.append(op)
            if every or n == last:
                m.step(real, ref, op, ctx)
                why = m.diff(real, ref, ctx)
            else:
                m.step(real, ref, op, QUIET)
    except ToolError:
        raise
    except Exception as e:      # pyCraft raised while applying a legal input
        why = ('raises %s' % type(e).__name__,
               'unexpected %s: %s' % (type(e).__name__, e))
    if why:
        report(ctx, m, init, done, why, sink)
        return None
    return m.key(real)


_KNOWN = set()          # inherited by forked workers
_MACHINES = {}


def machine(name, tier, seed):
    k = (name, tier, seed)
    if k not in _MACHINES:
        _MACHINES[k] = build_machine(name, tier, seed)
    return _MACHINES[k]


def w_expand(sub, task):
    name, histories, last = task
    m = machine(name, sub.tier, sub.seed)
    local = set()
    out = sub.extra.setdefault('succ', [])
    sink = sub.extra.setdefault('viol', [])
    for h in histories:
        ops = [m.alphabet[i] for i in h[1:]]
        blob = snapshot(m, h[0], ops) if m.snapshots else None
        for i, op in enumerate(m.alphabet):
            if len(sink) >= MAX_VIOL:
                return
            sub.transitions += 1
            sub.count()
            if blob is not None:
                key = one_step(sub, m, h[0], ops, op, blob, sink)
            else:
                key = lockstep(sub, m, h[0], ops + [op], sink, every=False)
            if key is None:
                continue
            k = h64((name, key))
            if last:
                sub.state(k)
            elif k not in _KNOWN and k not in local:
                local.add(k)
                out.append([k, h + [i]])


def explore(ctx, name, max_depth=None, parallel=False, chunk=8):
    """BFS over the real transition function; to a fixpoint when max_depth
    is None.  Stops after the first level that shows a violation (shortest
    counterexamples)."""
    global _KNOWN
    m = machine(name, ctx.tier, ctx.seed)
    known = set()
    frontier = []
    failed = False
    for i in range(m.n_inits):
        ctx.count()
        key = lockstep(ctx, m, i, [])
        if key is None:
            failed = True
            continue
        k = h64((name, key))
        if k not in known:
            known.add(k)
            ctx.state(k)
            frontier.append([i])
    depth = 0
    explored = 0
    while frontier and not failed:
        if max_depth is not None and depth >= max_depth:
            break
        depth += 1
        if depth > 64:
            raise ToolError('%s: no fixpoint within 64 levels' % name)
        last = max_depth is not None and depth == max_depth
        _KNOWN = known
        if parallel:        # a few tasks per worker, whatever the level size
            chunk = max(1, len(frontier) // 96)
        tasks = [(name, frontier[i:i + chunk], last)
                 for i in range(0, len(frontier), chunk)]
        explored += len(frontier) * len(m.alphabet)
        if parallel:
            ctx.pmap(w_expand, tasks)
        else:
            for t in tasks:
                sub = ctx.fork()
                w_expand(sub, t)
                ctx.absorb(sub)
        viol = ctx.extra.pop('viol', [])
        viol.sort(key=lambda v: (v[0], len(v[2]['ops']), repr(v[2])))
        for key, what, case in viol:
            failed = True
            ctx.violation(key, what, case)
        succ = ctx.extra.pop('succ', [])
        succ.sort(key=lambda s: s[1])
        frontier = []
        for k, h in succ:
            if k not in known:
                known.add(k)
                ctx.state(k)
                frontier.append(h)
    ctx.note_distinct(explored)
    info = ctx.extra.setdefault('machines', {})
    info[name] = {'alphabet': len(m.alphabet), 'levels': depth,
                  'states_expanded': len(known),
                  'fixpoint': max_depth is None and not frontier
                  and not failed, 'depth_bound': max_depth}
    _KNOWN = set()
    return m


def walks(ctx, name, n, length):
    """Long seeded histories on top of the exhaustive search."""
    m = machine(name, ctx.tier, ctx.seed)
    for w in range(n):
        rnd = random.Random('%s/%d/%d' % (name, ctx.seed, w))
        if w == 0:      # systematic: every operation in order, repeated
            ops = [m.alphabet[i % len(m.alphabet)] for i in range(length)]
        else:
            ops = [rnd.choice(m.alphabet) for _ in range(length)]
        ctx.count()
        ctx.note_distinct(1)
        ctx.transitions += length
        if lockstep(ctx, m, w % m.n_inits, ops) is not None:
            ctx.cls('%s: %d-step walk agreed with the reference'
                    % (name, length))


def w_directed(sub, task):
    """Every history of 1..maxlen single-action packets that starts with the
    given one, each replayed from scratch and compared after every packet -
    no reliance on 'equal canonical form => equal future'."""
    name, first, maxlen = task
    m = machine(name, sub.tier, sub.seed)
    sink = sub.extra.setdefault('viol', [])
    D = m.directed
    for n in range(0, maxlen):
        for rest in itertools.product(range(len(D)), repeat=n):
            if len(sink) >= MAX_VIOL:
                return
            idx = (first,) + rest
            ops = [D[i] for i in idx]
            sub.count()
            sub.note_distinct(1)
            sub.transitions += len(ops)
            key = lockstep(sub, m, 0, ops, sink)
            if key is None:
                continue
            sub.state(h64((name, key)))
            kinds = [o[0] for o in ops if o[1][0][0] == U0]
            for i in range(len(kinds) - 2):
                if kinds[i:i + 3] == ['add', 'rm', 'add']:
                    sub.cls('playerlist: add after remove after add of the '
                            'same UUID (directed history)')
                    break


def directed(ctx, name, maxlen):
    m = machine(name, ctx.tier, ctx.seed)
    ctx.pmap(w_directed, [(name, i, maxlen) for i in range(len(m.directed))])
    flush_viol(ctx)
    ctx.extra.setdefault('machines', {})[name + ' directed histories'] = {
        'alphabet': len(m.directed), 'max_length': maxlen,
        'histories': sum(len(m.directed) ** k for k in range(1, maxlen + 1))}


def flush_viol(ctx):
    """Report what workers put into the 'viol' sink, in a fixed order."""
    viol = ctx.extra.pop('viol', [])
    viol.sort(key=lambda v: (v[0], len(v[2]['ops']), repr(v[2])))
    for key, what, case in viol:
        ctx.violation(key, what, case)
    return bool(viol)


# ---------------------------------------------------------------------------
# player list

U0 = '11111111-2222-3333-4444-00000000000a'
U1 = '11111111-2222-3333-4444-00000000000b'
PL_FIELDS = ('uuid', 'name', 'properties', 'gamemode', 'ping', 'display_name')


class PlayerListMachine(Machine):
    name = 'playerlist'
    n_inits = 2
    snapshots = True

    def __init__(self, tier, seed):
        rnd = random.Random('pl/%d' % seed)
        nv = 3 if tier == 'thorough' else 2
        gms = [0, 1, 2][:nv]
        pings = [0, 7, 8 + rnd.randrange(1 << 20)][:nv]
        dns = [None, 'D1', 'X%d' % rnd.randrange(1000)][:nv]
        props = [[], [['textures', 'dmFsdWU=', 'c2ln']],
                 [['a', 'b', None], ['c', 'd', 'e']]][:nv]
        acts = {'add': [], 'gm': [], 'lat': [], 'dn': [], 'rm': []}
        for ui, u in enumerate((U0, U1)):
            for v in range(nv):
                acts['add'].append([u, 'p%d_%d' % (ui, v), props[v], gms[v],
                                    pings[v], dns[v]])
                acts['gm'].append([u, gms[v]])
                acts['lat'].append([u, pings[v]])
                acts['dn'].append([u, dns[v]])
            acts['rm'].append([u])
        alpha = []
        for kind in ('add', 'gm', 'lat', 'dn', 'rm'):
            alpha.append([kind, []])            # a packet without actions
            for a in acts[kind]:
                alpha.append([kind, [a]])
            for a in acts[kind]:
                for b in acts[kind]:
                    alpha.append([kind, [a, b]])
            # three actions in one packet: the same UUID three times (every
            # value combination), and the same UUID twice around an action
            # for the other UUID
            two = []                    # first two values of each UUID
            for u in (U0, U1):
                two += [a for a in acts[kind] if a[0] == u][:2]
            for a in two:
                for b in two:
                    for c in two:
                        if a[0] == c[0] and [kind, [a, b, c]] not in alpha:
                            alpha.append([kind, [a, b, c]])
        rnd.shuffle(alpha)
        self.alphabet = alpha
        # single-action packets for the directed short histories: everything
        # that can happen to ONE UUID (two different adds, one update of each
        # field kind, removal) plus add/remove of a bystander
        self.directed = [['add', [acts['add'][0]]], ['add', [acts['add'][1]]],
                         ['gm', [acts['gm'][1]]], ['lat', [acts['lat'][1]]],
                         ['dn', [acts['dn'][1]]], ['rm', [acts['rm'][0]]],
                         ['add', [acts['add'][nv]]], ['rm', [acts['rm'][1]]]]

    def fresh(self, i):
        P = lib().cplay.PlayerListItemPacket
        if i == 0:
            return P.PlayerList(), {}
        item = P.PlayerListItem(uuid=U1, name='seeded', properties=[],
                                gamemode=3, ping=99, display_name='S')
        return P.PlayerList(item), {U1: {
            'uuid': U1, 'name': 'seeded', 'properties': [], 'gamemode': 3,
            'ping': 99, 'display_name': 'S'}}

    def packet(self, op):
        P = lib().cplay.PlayerListItemPacket
        kind, acts = op
        cls = {'add': P.AddPlayerAction, 'gm': P.UpdateGameModeAction,
               'lat': P.UpdateLatencyAction, 'dn': P.UpdateDisplayNameAction,
               'rm': P.RemovePlayerAction}[kind]
        actions = []
        for a in acts:
            if kind == 'add':
                actions.append(cls(
                    uuid=a[0], name=a[1],
                    properties=[P.PlayerProperty(name=p[0], value=p[1],
                                                 signature=p[2])
                                for p in a[2]],
                    gamemode=a[3], ping=a[4], display_name=a[5]))
            elif kind == 'gm':
                actions.append(cls(uuid=a[0], gamemode=a[1]))
            elif kind == 'lat':
                actions.append(cls(uuid=a[0], ping=a[1]))
            elif kind == 'dn':
                actions.append(cls(uuid=a[0], display_name=a[1]))
            else:
                actions.append(cls(uuid=a[0]))
        return P(action_type=cls, actions=actions)

    def step(self, real, ref, op, ctx):
        self.packet(op).apply(real)
        kind, acts = op
        for a in acts:
            u = a[0]
            if kind == 'add':
                ctx.cls('playerlist: add overwrites an existing entry'
                        if u in ref else 'playerlist: add of a new player')
                ref[u] = {'uuid': u, 'name': a[1],
                          'properties': [list(p) for p in a[2]],
                          'gamemode': a[3], 'ping': a[4],
                          'display_name': a[5]}
            elif kind == 'rm':
                ctx.cls('playerlist: remove of a known player' if u in ref
                        else 'playerlist: remove of an unknown player (no-op)')
                ref.pop(u, None)
            else:
                field = {'gm': 'gamemode', 'lat': 'ping',
                         'dn': 'display_name'}[kind]
                ctx.cls('playerlist: update of a known player' if u in ref
                        else 'playerlist: update of an unknown player (no-op)')
                ctx.cls('playerlist: update of %s of %s player' % (
                    field, 'a known' if u in ref else 'an unknown'))
                if u in ref:
                    ref[u][field] = a[1]
        if ctx is QUIET:
            return
        if not acts:
            ctx.cls('playerlist: packet without actions (no-op)')
        if len(acts) > 2:
            ctx.cls('playerlist: three actions in one packet')
        uu = [a[0] for a in acts]
        if len(set(uu)) < len(uu):
            ctx.cls('playerlist: same UUID several times in one packet')
            if len(uu) == 3 and uu[0] == uu[2] != uu[1]:
                ctx.cls('playerlist: same UUID twice in one packet around '
                        'another UUID')
            if len(set(map(repr, acts))) == len(acts):
                ctx.cls('playerlist: same UUID several times in one packet '
                        'with different values')

    @staticmethod
    def view(real):
        out = {}
        for k, item in real.players_by_uuid.items():
            d = {}
            for f in PL_FIELDS:
                v = getattr(item, f, UNSET)
                if f == 'properties' and isinstance(v, list):
                    v = [[getattr(p, 'name', UNSET),
                          getattr(p, 'value', UNSET),
                          getattr(p, 'signature', UNSET)] for p in v]
                d[f] = v
            out[k] = d
        return out

    def diff(self, real, ref, ctx):
        got = self.view(real)
        if sorted(got) != sorted(ref):
            return ('wrong set of players',
                    'players present: expected %r, got %r' % (
                        sorted(ref), sorted(got)))
        for u in sorted(ref):
            for f in PL_FIELDS:
                if not same(got[u][f], ref[u][f]):
                    return ('wrong %s' % f,
                            'player %s field %s: expected %r, got %r' % (
                                u[-1], f, ref[u][f], got[u][f]))
        return None

    def opkind(self, op):
        return '%s x%d' % (op[0], len(op[1]))

    def label(self, op):
        return '%s(%s)' % (op[0], ', '.join(
            '%s%s' % (a[0][-1], ('=' + repr(a[1])) if len(a) > 1 else '')
            for a in op[1]))


# ---------------------------------------------------------------------------
# maps

def map_patterns():
    icon = [1, 2, [3, -4], None]
    icon2 = [5, 15, [-128, 127], 'home']
    return [
        {'scale': 0, 'icons': [], 'tracking': True, 'locked': False,
         'px': lambda i: 1 + i},
        {'scale': 3, 'icons': [icon, icon2], 'tracking': False,
         'locked': True, 'px': lambda i: 0x11 * (i + 1) + 0x80},
    ]


def map_ops(ids, rects):
    """[map_id, scale, icons, w, h, ox, oz, pixels|None, tracking, locked]"""
    out = []
    for mid in ids:
        for pat in map_patterns():
            for (w, h, ox, oz) in rects:
                out.append([mid, pat['scale'], pat['icons'], w, h, ox, oz,
                            [pat['px'](i) for i in range(w * h)],
                            pat['tracking'], pat['locked']])
            out.append([mid, pat['scale'], pat['icons'], 0, 0, None, None,
                        None, pat['tracking'], pat['locked']])
    return out


def fitting_rects(W, H, sizes=(1, 2)):
    return [(w, h, ox, oz) for w in sizes for h in sizes
            for ox in range(W - w + 1) for oz in range(H - h + 1)]


def inside(w, n, ox, oz, W, H):
    """Do all n pixels of an update of width w at (ox, oz) lie inside a WxH
    map?  (columns touched: min(w, n); rows touched: ceil(n / w))"""
    return w >= 1 and n >= 1 and ox >= 0 and oz >= 0 and \
        ox + min(w, n) - 1 < W and oz + (n - 1) // w < H


def overlap(a, b):
    """Do two updates [w, n, ox, oz] write a common cell?"""
    ca = set((a[2] + i % a[0], a[3] + i // a[0]) for i in range(a[1]))
    return any((b[2] + i % b[0], b[3] + i // b[0]) in ca
               for i in range(b[1]))


def update_classes(w, h, n, ox, oz, W, H):
    """Vacuity-guard labels of one pixel-carrying update on a WxH map."""
    out = []
    big = ' of a 128x128 map' if (W, H) == (128, 128) else ''
    rows = (n - 1) // w + 1
    if n == w * h:
        out.append('maps: patch %dx%d' % (w, h) if w * h <= 4
                   else 'maps: rectangular patch larger than 2x2')
    if h != rows:
        out.append('maps: declared height differs from the rows carried')
    if n % w:
        out.append('maps: ragged map update')
        if n < w:
            out.append('maps: ragged map update shorter than one row')
        elif n // w == 1:
            out.append('maps: ragged map update of one-and-a-bit rows')
        if n > w and n % w == 1:
            out.append('maps: ragged map update of k rows plus 1 pixel')
        if n > w and n % w == w - 1:
            out.append('maps: ragged map update of k rows minus 1 pixel')
        if big:
            out.append('maps: ragged map update' + big)
    if w == 1:
        out.append('maps: update of width 1')
    if ox + min(w, n) == W:
        out.append('maps: update touching the last column' + big)
    if oz + rows == H:
        out.append('maps: update touching the last row' + big)
    if oz + rows == H and ox + (n - 1) % w == W - 1:
        out.append('maps: update ending exactly at the bottom-right border'
                   + big)
    return out


def px_values(k, n):
    """Pixel values of the k-th update of an alphabet: never 0 (the initial
    value), different for neighbouring pixels and for different updates."""
    return [1 + (7 * k + 29 * i) % 255 for i in range(n)]


def shaped_op(k, mid, w, n, ox, oz, h=None):
    pat = map_patterns()[k % 2]
    return [mid, pat['scale'], pat['icons'], w, -(-n // w) if h is None else h,
            ox, oz, px_values(k, n), pat['tracking'], pat['locked']]


def all_updates(W, H, max_w):
    """EVERY update (w, n, ox, oz), 1 <= w <= max_w, whose pixels all lie
    inside a WxH map: rectangular and ragged, every width, every offset."""
    return [(w, n, ox, oz) for w in range(1, max_w + 1)
            for n in range(1, w * H + 1)
            for ox in range(W) for oz in range(H)
            if inside(w, n, ox, oz, W, H)]


def shaped_ops(mid, W, H, max_w, heights='rows'):
    """The complete in-bounds alphabet of a small map.  heights='rows':
    declared height = rows carried; 'other': every other declared height out
    of {0, n div w, rows + 1} (one operation each)."""
    out = []
    for (w, n, ox, oz) in all_updates(W, H, max_w):
        rows = -(-n // w)
        hs = [rows] if heights == 'rows' else \
            [h for h in sorted({0, n // w, rows + 1}) if h != rows]
        for h in hs:
            out.append(shaped_op(len(out), mid, w, n, ox, oz, h))
    pat = map_patterns()[1]
    out.append([mid, pat['scale'], pat['icons'], 0, 0, None, None, None,
                pat['tracking'], pat['locked']])
    return out


def border_updates(widths):
    """Updates (w, n, ox, oz) of a 128x128 map around its borders: for every
    width, the pixel counts {1, w-1, w, w+1, 2w-1, 2w, 2w+1, 3w+1} (shorter
    than a row, whole rows, one-and-a-bit rows, k rows minus/plus 1; for a
    width beyond 128 the counts {1, 2, 127, 128} of a partial row) at the
    anchors: top-left corner, ending exactly at the last column, at the last
    row, at both, one short of both, and an interior point - every
    combination that stays inside the map."""
    out = []
    for w in widths:
        counts = {1, w - 1, w, w + 1, 2 * w - 1, 2 * w, 2 * w + 1, 3 * w + 1}
        if w > 128:     # wider than the map: only part of one row can fit
            counts = {1, 2, 127, 128}
        for n in sorted(counts):
            if n < 1:
                continue
            cols, rows = min(w, n), -(-n // w)
            for (ox, oz) in ((0, 0), (128 - cols, 0), (0, 128 - rows),
                             (128 - cols, 128 - rows),
                             (127 - cols, 127 - rows), (60, 70)):
                t = (w, n, ox, oz)
                if inside(w, n, ox, oz, 128, 128) and t not in out:
                    out.append(t)
    return out


FULL_MAP_UPDATES = [
    (128, 128 * 128, 0, 0),         # the whole map, ends at the border
    (128, 128 * 128 - 1, 0, 0),     # k rows minus 1
    (128, 128 * 127 + 1, 0, 0),     # k rows plus 1, touches the last row
    (128, 128, 0, 127),             # exactly the last row
    (128, 127, 1, 127),             # short row ending at the last pixel
    (128, 129, 0, 126),             # one-and-a-bit rows into the last row
    (1, 128, 127, 0),               # exactly the last column
]


class MapMachine(Machine):
    """mode 'set': apply_to_map_set on a MapSet; mode 'map': apply_to_map."""
    snapshots = True

    def __init__(self, name, seed, mode, dims, ids, rects, seeded=(0, 1),
                 ops=None):
        self.name, self.mode, self.dims, self.seeded = name, mode, dims, seeded
        self.alphabet = map_ops(ids, rects) if ops is None else ops
        random.Random('map/%s/%d' % (name, seed)).shuffle(self.alphabet)

    @staticmethod
    def new_ref(mid, W, H):
        return {'id': mid, 'scale': None, 'icons': [], 'width': W,
                'height': H, 'pixels': bytearray(W * H), 'tracking': True,
                'locked': False}

    def fresh(self, i):
        M = lib().cplay.MapPacket
        W, H = self.dims
        if self.mode == 'map':
            return M.Map(id=0, width=W, height=H), self.new_ref(0, W, H)
        maps = [M.Map(id=k, width=W, height=H) for k in self.seeded]
        return M.MapSet(*maps), {k: self.new_ref(k, W, H)
                                 for k in self.seeded}

    @staticmethod
    def packet(op):
        M = lib().cplay.MapPacket
        mid, scale, icons, w, h, ox, oz, px, tracking, locked = op
        return M(map_id=mid, scale=scale,
                 icons=[M.MapIcon(type=i[0], direction=i[1],
                                  location=(i[2][0], i[2][1]),
                                  display_name=i[3]) for i in icons],
                 width=w, height=h,
                 offset=None if px is None else (ox, oz),
                 pixels=None if px is None else bytes(px),
                 is_tracking_position=tracking, is_locked=locked)

    def step(self, real, ref, op, ctx):
        p = self.packet(op)
        mid, scale, icons, w, h, ox, oz, px, tracking, locked = op
        if self.mode == 'map':
            p.apply_to_map(real)
            r = ref
        else:
            p.apply_to_map_set(real)
            if mid not in ref:
                ctx.cls('maps: packet for an unknown id creates a 128x128 map')
                ref[mid] = self.new_ref(mid, 128, 128)
            r = ref[mid]
        r['id'], r['scale'] = mid, scale
        r['icons'] = [tolist(i) for i in icons]
        r['tracking'], r['locked'] = tracking, locked
        if px is None:
            ctx.cls('maps: packet without pixels')
            return
        W, H, n = r['width'], r['height'], len(px)
        if not inside(w, n, ox, oz, W, H):
            raise ToolError('map alphabet: %s leaves the %dx%d map'
                            % (self.label(op), W, H))
        # the prescribed placement, for EVERY pixel of the array: pixel i
        # lands at (ox + i mod w, oz + i div w); the declared height h takes
        # no part in it
        for i in range(n):
            r['pixels'][(oz + i // w) * W + ox + i % w] = px[i]
        last, r['last'] = r.get('last'), [w, n, ox, oz]
        if ctx is QUIET:
            return
        for c in update_classes(w, h, n, ox, oz, W, H):
            ctx.cls(c)
        if last is not None and overlap(last, r['last']):
            ctx.cls('maps: update overlapping the previous update of that '
                    'map')

    @staticmethod
    def view(mp):
        icons = getattr(mp, 'icons', UNSET)
        if isinstance(icons, list):
            icons = [[getattr(i, 'type', UNSET),
                      getattr(i, 'direction', UNSET),
                      tolist(getattr(i, 'location', UNSET)),
                      getattr(i, 'display_name', UNSET)] for i in icons]
        px = getattr(mp, 'pixels', UNSET)
        return {'id': getattr(mp, 'id', UNSET),
                'scale': getattr(mp, 'scale', UNSET), 'icons': icons,
                'width': getattr(mp, 'width', UNSET),
                'height': getattr(mp, 'height', UNSET),
                'pixels': bytes(px) if isinstance(px, (bytes, bytearray))
                else px,
                'tracking': getattr(mp, 'is_tracking_position', UNSET),
                'locked': getattr(mp, 'is_locked', UNSET)}

    @staticmethod
    def diff_one(got, exp, tag):
        for f in ('id', 'scale', 'icons', 'width', 'height', 'tracking',
                  'locked'):
            if not same(got[f], exp[f]):
                return ('wrong %s' % f, '%s field %s: expected %r, got %r'
                        % (tag, f, exp[f], got[f]))
        want = bytes(exp['pixels'])
        if got['pixels'] != want:
            if not isinstance(got['pixels'], bytes) or \
                    len(got['pixels']) != len(want):
                return ('wrong pixel buffer',
                        '%s pixels: expected %d bytes, got %s' % (
                            tag, len(want), brief(got['pixels'], 80)))
            W = exp['width']
            bad = [(i % W, i // W, want[i], got['pixels'][i])
                   for i in range(len(want)) if want[i] != got['pixels'][i]]
            return ('wrong pixels',
                    '%s pixels differ at (x, z, expected, got): %r' % (
                        tag, bad[:8]))
        return None

    def diff(self, real, ref, ctx):
        if self.mode == 'map':
            return self.diff_one(self.view(real), ref, 'map')
        got = real.maps_by_id
        if sorted(got) != sorted(ref):
            return ('wrong set of maps',
                    'maps present: expected ids %r, got %r' % (
                        sorted(ref), sorted(got)))
        for k in sorted(ref):
            why = self.diff_one(self.view(got[k]), ref[k], 'map %r' % k)
            if why:
                return why
        return None

    def opkind(self, op):
        if op[7] is None:
            return 'a packet without pixels'
        w, h, n = op[3], op[4], len(op[7])
        if n == w * h:
            return 'a %dx%d patch' % (w, h)
        if n < w:
            return 'a ragged update shorter than one row'
        if n % w:
            return 'a ragged update with a partial last row'
        return 'an update declaring another height than it carries'

    def label(self, op):
        if op[7] is None:
            return 'map%d:nopixels(scale=%d)' % (op[0], op[1])
        n = len(op[7])
        shape = '%dx%d' % (op[3], op[4]) if n == op[3] * op[4] else \
            'width=%d,height=%d,%dpx' % (op[3], op[4], n)
        return 'map%d:%s@(%d,%d)px=%s' % (
            op[0], shape, op[5], op[6],
            bytes(op[7]).hex() if n <= 16 else
            bytes(op[7][:8]).hex() + '..(%d bytes)' % n)


# ---------------------------------------------------------------------------
# attribute-alias machines

class View(object):
    """An alias attribute of the real object; `how` says how a value list
    from an operation is turned into the object that is assigned."""

    def __init__(self, attrs, ctype=None, fields=None, keyword=False):
        self.attrs, self.ctype, self.keyword = attrs, ctype, keyword
        self.fields = fields       # names to read components by (kw form)

    # -- building the assigned object
    def build(self, how, val):
        if how == 'plain':
            return val
        if how == 'tuple':
            return tuple(val)
        C = self.ctype()
        if self.fields:
            return C(**dict(zip(self.fields, val)))
        return C(*val)

    # -- reference semantics
    def assign(self, ref, val):
        for a, v in zip(self.attrs, val):
            ref[a] = v

    def expect(self, ref):
        if any(ref.get(a, UNSET) is UNSET for a in self.attrs):
            return UNSET
        return [ref[a] for a in self.attrs]

    def compare(self, got, exp):
        C = self.ctype()
        if type(got) is not C:
            return 'is a %s, expected a %s' % (type(got).__name__, C.__name__)
        if self.fields:
            parts = [getattr(got, f, UNSET) for f in self.fields]
        else:
            parts = list(got)
        if not same(parts, exp):
            return 'reads %r, expected components %r' % (got, exp)


class PlainView(View):
    """alias = f(attr), assignment stores g(value) (identity by default)."""

    def __init__(self, attr, fwd=None, back=None):
        View.__init__(self, [attr])
        self.fwd = fwd or (lambda v: v)
        self.back = back or (lambda v: v)

    def assign(self, ref, val):
        ref[self.attrs[0]] = self.back(val)

    def expect(self, ref):
        v = ref.get(self.attrs[0], UNSET)
        return UNSET if v is UNSET else self.fwd(v)

    def compare(self, got, exp):
        if not same(got, exp):
            return 'reads %r, expected %r' % (got, exp)


class BitsView(View):
    """block id / block meta packed in block_state_id."""

    def __init__(self, which):
        View.__init__(self, ['block_state_id'])
        self.which = which

    def assign(self, ref, val):
        s = ref['block_state_id']
        ref['block_state_id'] = (s % 16 + val * 16) if self.which == 'id' \
            else (s - s % 16 + val)

    def expect(self, ref):
        s = ref['block_state_id']
        return s // 16 if self.which == 'id' else s % 16

    def compare(self, got, exp):
        if not same(got, exp):
            return 'reads %r, expected %r' % (got, exp)


class JoinView(View):
    """JoinGamePacket.game_mode / is_hardcore / pure_game_mode.  Reference:
    before protocol 738 hardcore is bit 8 of the game-mode byte; from 738 it
    is a separate field."""

    def __init__(self, which, new):
        View.__init__(self, [])
        self.which, self.new = which, new

    def assign(self, ref, val):
        if self.which == 'game_mode':
            ref['old'], ref['new_gm'], ref['old_explicit'] = val, val, True
        elif self.which == 'pure_game_mode':
            ref['old'] = val + (ref.get('old', 0) // 8 % 2) * 8
            ref['new_gm'], ref['old_explicit'] = val, True
        else:
            ref['new_hc'] = val
            o = ref.get('old', 0)
            ref['old'] = o - (o // 8 % 2) * 8 + (8 if val else 0)
            ref['hc_explicit'] = True

    def expect(self, ref):
        if self.new:
            if self.which == 'is_hardcore':
                return ref.get('new_hc', UNSET)
            return ref.get('new_gm', UNSET)
        if self.which == 'is_hardcore':
            # defined once either the byte or the flag has been assigned
            if not (ref.get('old_explicit') or ref.get('hc_explicit')):
                return UNSET
            return bool(ref['old'] // 8 % 2)
        if not ref.get('old_explicit'):
            return UNSET        # only the hardcore bit was ever assigned
        o = ref['old']
        return o if self.which == 'game_mode' else o - (o // 8 % 2) * 8

    def compare(self, got, exp):
        if not same(got, exp):
            return 'reads %r, expected %r' % (got, exp)


class ViewMachine(Machine):
    def __init__(self, name, make, attrs, defaults, views, ops,
                 readpath=None):
        self.name, self.make = name, make
        self.attrs, self.defaults, self.views = attrs, defaults, views
        self.alphabet = ops
        self.readpath = readpath or {}

    def fresh(self, i):
        return self.make(), dict(self.defaults)

    def read_attr(self, real, a):
        o = real
        for part in self.readpath.get(a, a).split('.'):
            o = getattr(o, part, UNSET)
            if o is UNSET:
                break
        return o

    def step(self, real, ref, op, ctx):
        target, how, val = op
        if target in self.views:
            v = self.views[target]
            setattr(real, target, v.build(how, val))
            v.assign(ref, val)
            ctx.cls('alias: assignment through an alias')
        else:
            o, path = real, self.readpath.get(target, target).split('.')
            for part in path[:-1]:
                o = getattr(o, part)
            setattr(o, path[-1], val)
            ref[target] = val
            ctx.cls('alias: assignment to the underlying attribute')

    def diff(self, real, ref, ctx):
        for a in self.attrs:
            got, exp = self.read_attr(real, a), ref.get(a, UNSET)
            if not same(got, exp):
                return ('attribute %s wrong' % a,
                        'attribute %s = %r, expected %r' % (a, got, exp))
        for name in sorted(self.views):
            v = self.views[name]
            exp = v.expect(ref)
            if exp is UNSET:
                try:
                    getattr(real, name)
                    ctx.outcome('alias read before its sources are set: '
                                'returned a value (not judged)')
                except Exception as e:
                    ctx.outcome('alias read before its sources are set: %s '
                                '(not judged)' % type(e).__name__)
                continue
            try:
                got = getattr(real, name)
            except Exception as e:
                return ('reading %s raises %s' % (name, type(e).__name__),
                        'reading alias %s (sources %r, all assigned) raises '
                        '%s: %s' % (name, v.attrs, type(e).__name__, e))
            why = v.compare(got, exp)
            if why:
                return ('alias %s reads back wrong' % name,
                        'alias %s %s' % (name, why))
        return None

    def key(self, real):
        return canon(real)

    def label(self, op):
        return '%s<-%s%r' % (op[0], '' if op[1] in ('attr', 'plain')
                             else op[1] + ':', op[2])


T5 = ([1, 2.5, -3, 90.0, 45.5], [-7.25, 0, 64, 359.5, -0.5])
ATTR_VALUE = 11


def multi_ops(views, attrs, hows):
    ops = []
    for name in sorted(views):
        n = len(views[name].attrs)
        for how in hows[name]:
            for t in T5:
                ops.append([name, how, t[:n]])
    for i, a in enumerate(attrs):
        ops.append([a, 'attr', ATTR_VALUE + i])
    return ops


def alias_machines(seed):
    """name -> constructor thunk for every alias machine."""
    out = {}

    def T():
        return lib().types

    def vec():
        return T().Vector

    def direction():
        return T().Direction

    def pal():
        return T().PositionAndLook

    PAL_F = ['x', 'y', 'z', 'yaw', 'pitch']

    def pos_look(name, make, ynam='y', keyword=False):
        # two machines per class, so that a failure of one alias does not
        # cut short the exploration of the others
        xyz = ['x', ynam, 'z']
        attrs = xyz + ['yaw', 'pitch']

        def build_pl():
            views = {'position': View(xyz, vec),
                     'look': View(['yaw', 'pitch'], direction)}
            hows = {'position': ['container', 'tuple'],
                    'look': ['container', 'tuple']}
            return ViewMachine(name + ' position/look', make, attrs, {},
                               views, multi_ops(views, attrs, hows))

        def build_pal():
            # position_and_look is assigned a PositionAndLook only: that is
            # what the alias is documented to hold, and the keyword form
            # cannot take a plain tuple
            views = {'position_and_look': View(attrs, pal, fields=PAL_F,
                                               keyword=keyword)}
            hows = {'position_and_look': ['container']}
            return ViewMachine(name + ' position_and_look', make, attrs, {},
                               views, multi_ops(views, attrs, hows))
        out[name + ' position/look'] = build_pl
        out[name + ' position_and_look'] = build_pal

    pos_look('alias serverbound PositionAndLookPacket',
             lambda: lib().splay.PositionAndLookPacket(), ynam='feet_y')
    pos_look('alias clientbound PlayerPositionAndLookPacket',
             lambda: lib().cplay.PlayerPositionAndLookPacket())
    pos_look('alias clientbound SpawnPlayerPacket',
             lambda: lib().cplay.SpawnPlayerPacket())
    pos_look('alias clientbound SpawnObjectPacket (keyword form)',
             lambda: lib().cplay.SpawnObjectPacket(), keyword=True)

    def simple(name, make, views, hows, attrs, defaults=None, values=None,
               readpath=None):
        def build():
            vs = views()
            ops = multi_ops(vs, [], hows) if values is None else values
            if values is None:
                ops += [[a, 'attr', ATTR_VALUE + i]
                        for i, a in enumerate(attrs)]
            return ViewMachine(name, make, attrs, defaults or {}, vs, ops,
                               readpath)
        out[name] = build

    simple('alias clientbound SpawnObjectPacket velocity/objectUUID',
           lambda: lib().cplay.SpawnObjectPacket(),
           lambda: {'velocity': View(['velocity_x', 'velocity_y',
                                      'velocity_z'], vec),
                    'objectUUID': PlainView('object_uuid')},
           {'velocity': ['container', 'tuple'], 'objectUUID': ['plain']},
           ['velocity_x', 'velocity_y', 'velocity_z', 'object_uuid'])
    simple('alias PositionAndLook record',
           lambda: lib().types.PositionAndLook(),
           lambda: {'position': View(['x', 'y', 'z'], vec),
                    'look': View(['yaw', 'pitch'], direction)},
           {'position': ['container', 'tuple'],
            'look': ['container', 'tuple']}, PAL_F)
    simple('alias ExplosionPacket', lambda: lib().cplay.ExplosionPacket(),
           lambda: {'position': View(['x', 'y', 'z'], vec),
                    'player_motion': View(['player_motion_x',
                                           'player_motion_y',
                                           'player_motion_z'], vec)},
           {'position': ['container', 'tuple'],
            'player_motion': ['container', 'tuple']},
           ['x', 'y', 'z', 'player_motion_x', 'player_motion_y',
            'player_motion_z'])
    simple('alias FacePlayerPacket', lambda: lib().cplay.FacePlayerPacket(),
           lambda: {'target': View(['x', 'y', 'z'], vec)},
           {'target': ['container', 'tuple']}, ['x', 'y', 'z'])
    simple('alias MultiBlockChangePacket.chunk_pos (tuple container)',
           lambda: lib().cplay.MultiBlockChangePacket(),
           lambda: {'chunk_pos': View(['chunk_x', 'chunk_z'],
                                      lambda: tuple)},
           {'chunk_pos': ['tuple']}, ['chunk_x', 'chunk_z'])

    def block_values():
        ops = []
        for v in (0, 1, 358, 0xABCDE):
            ops.append(['blockId', 'plain', v])
            ops.append(['block_state_id', 'attr', v * 16 + 5])
            ops.append(['blockStateId', 'plain', v * 16 + 9])
        for v in (0, 9, 15):
            ops.append(['blockMeta', 'plain', v])
        return ops

    def block_views():
        return {'blockId': BitsView('id'), 'blockMeta': BitsView('meta'),
                'blockStateId': PlainView('block_state_id')}

    simple('alias BlockChangePacket', lambda: lib().cplay.BlockChangePacket(),
           block_views, None, ['block_state_id'], {'block_state_id': 0},
           block_values())

    def record_values():
        ops = block_values()
        for t in T5:
            ops.append(['position', 'container', t[:3]])
            ops.append(['position', 'tuple', t[:3]])
        ops += [[a, 'attr', ATTR_VALUE + i] for i, a in enumerate('xyz')]
        return ops

    def record_views():
        d = block_views()
        d['position'] = View(['x', 'y', 'z'], vec)
        return d

    simple('alias MultiBlockChangePacket.Record',
           lambda: lib().cplay.MultiBlockChangePacket.Record(),
           record_views, None, ['block_state_id', 'x', 'y', 'z'],
           {'block_state_id': 0}, record_values())

    def delta_views():
        # fixed point, 12 fractional bits
        return {'delta_' + c: PlainView(
            'delta_%s_float' % c,
            fwd=lambda f: int(Fraction(f) * 4096),
            back=lambda n: float(Fraction(n, 4096))) for c in 'xyz'}

    dv = []
    for c in 'xyz':
        for n in (0, 1, -32768, 32767, -4097):
            dv.append(['delta_' + c, 'plain', n])
        for f in (0.0, -0.5, 7.999755859375, 1.000244140625):
            dv.append(['delta_%s_float' % c, 'attr', f])
    simple('alias EntityPositionDeltaPacket (attribute_transform)',
           lambda: lib().cplay.EntityPositionDeltaPacket(), delta_views,
           None, ['delta_x_float', 'delta_y_float', 'delta_z_float'], {}, dv)

    simple('alias ClientSettingsPacket.disable_text_filtering',
           lambda: lib().splay.ClientSettingsPacket(),
           lambda: {'disable_text_filtering': PlainView(
               'enable_text_filtering', fwd=lambda b: not b,
               back=lambda b: not b)},
           None, ['enable_text_filtering'], {'enable_text_filtering': False},
           [['disable_text_filtering', 'plain', True],
            ['disable_text_filtering', 'plain', False],
            ['enable_text_filtering', 'attr', True],
            ['enable_text_filtering', 'attr', False]])

    def join(pv, new):
        name = 'alias JoinGamePacket protocol %d' % pv

        def make():
            L = lib()
            return L.cplay.JoinGamePacket(
                context=L.Context(protocol_version=pv))
        ops = [['game_mode', 'plain', g] for g in (1, 10, 0)] + \
              [['pure_game_mode', 'plain', g] for g in (0, 3)] + \
              [['is_hardcore', 'plain', h] for h in (True, False)]
        simple(name, make,
               lambda: {w: JoinView(w, new) for w in
                        ('game_mode', 'pure_game_mode', 'is_hardcore')},
               None, [], {}, ops)

    join(47, False)
    join(736, False)
    join(738, True)
    join(757, True)

    # every helper of minecraft/utility.py on a synthetic host
    class Pair(object):
        def __init__(self, p, q):
            self.p, self.q = p, q

    class Mixed(object):
        def __init__(self, first, q=None):
            self.first, self.q = first, q

        def __iter__(self):
            return iter((self.first,))

    def host():
        U = lib().utility

        class Inner(object):
            pass

        class Host(object):
            same_a = U.attribute_alias('a')
            neg_a = U.attribute_transform('a', lambda v: -v, lambda v: -v)
            inner_p = U.partial_attribute_alias('inner', 'p')
            pair = U.multi_attribute_alias(tuple, 'a', 'b')
            kw = U.multi_attribute_alias(Pair, p='a', q='b')
            mixed = U.multi_attribute_alias(Mixed, 'b', q='a')

            def __init__(self):
                self.inner = Inner()
        return Host()

    def host_views():
        return {
            'same_a': PlainView('a'),
            'neg_a': PlainView('a', fwd=lambda v: 0 - v, back=lambda v: 0 - v),
            'inner_p': PlainView('inner.p'),
            'pair': View(['a', 'b'], lambda: tuple),
            'kw': View(['a', 'b'], lambda: Pair, fields=['p', 'q'],
                       keyword=True),
            'mixed': View(['b', 'a'], lambda: Mixed, fields=['first', 'q']),
        }

    hv = [['same_a', 'plain', 3], ['neg_a', 'plain', 4.5],
          ['inner_p', 'plain', 'x'], ['inner_p', 'plain', 0],
          ['pair', 'tuple', [1, 2]], ['pair', 'tuple', [7, None]],
          ['kw', 'container', [5, 6]], ['mixed', 'container', [8, 9]],
          ['a', 'attr', 21], ['b', 'attr', 22], ['inner.p', 'attr', 23]]
    simple('alias synthetic host (all helpers of minecraft.utility)', host,
           host_views, None, ['a', 'b', 'inner.p'], {}, hv)
    return out


def build_machine(name, tier, seed):
    if name == 'playerlist':
        return PlayerListMachine(tier, seed)
    r44 = fitting_rects(4, 4)
    if name == 'mapset':
        return MapMachine(name, seed, 'set', (4, 4), (0, 1), r44)
    if name == 'mapset-one-id':
        return MapMachine(name, seed, 'set', (4, 4), (0,), r44)
    if name == 'mapset-empty':
        corner = [(2, 2, 0, 0), (2, 2, 126, 126), (1, 1, 127, 127),
                  (2, 1, 126, 0), (1, 2, 0, 126), (2, 2, 5, 9), (1, 1, 0, 0)]
        return MapMachine(name, seed, 'set', (4, 4), (0, 1), corner,
                          seeded=())
    if name == 'map-direct-4x4':
        return MapMachine(name, seed, 'map', (4, 4), (0, 1), r44)
    if name == 'map-direct-5x3':
        return MapMachine(name, seed, 'map', (5, 3), (0, 1),
                          fitting_rects(5, 3))
    if name == 'map-shaped-4x3':
        return MapMachine(name, seed, 'map', (4, 3), None, None,
                          ops=shaped_ops(0, 4, 3, 5))
    if name == 'map-shaped-5x4':
        return MapMachine(name, seed, 'map', (5, 4), None, None,
                          ops=shaped_ops(0, 5, 4, 6))
    if name == 'map-shaped-heights-4x3':
        return MapMachine(name, seed, 'map', (4, 3), None, None,
                          ops=shaped_ops(0, 4, 3, 5, 'other'))
    if name == 'mapset-border-128':
        extra = random.Random('mapw/%d' % seed).randrange(4, 127)
        widths = [1, 3, 128, 255, extra]
        if tier == 'thorough':
            widths += [2, 5, 127]
        ops = [shaped_op(k, 7, *t)
               for k, t in enumerate(border_updates(widths))]
        return MapMachine(name, seed, 'set', (4, 4), None, None, seeded=(),
                          ops=ops)
    if name == 'mapset-full-128':
        ops = [shaped_op(k, 3, *t) for k, t in enumerate(FULL_MAP_UPDATES)]
        return MapMachine(name, seed, 'set', (4, 4), None, None, seeded=(),
                          ops=ops)
    am = alias_machines(seed)
    if name in am:
        return am[name]()
    raise ToolError('unknown machine %r' % name)


# ---------------------------------------------------------------------------
# position and look

P_VALUES = [0, 90, -90, 359.5, 720.25, -0.5]
P_PRIORS = ([0, 0, 0, 0, 0], [10.5, 64, -7.25, 350.0, 275.5],
            [-3.5, 255.875, 1000.125, 0.125, 359.875])
# values an angle is made to END ON (before wrapping): the multiples of 360
# from -720 to 1080 and their neighbours one eighth below and above
P_LANDINGS = [k * 360 + d for k in (-2, -1, 0, 1, 2, 3)
              for d in (-0.125, 0, 0.125)]
P_BASE = [1.25, -2.5, 3, 45.0, 30.0]
AXES = ('x', 'y', 'z', 'yaw', 'pitch')


def eighths(v):
    """v as an exact integer number of eighths (the alphabets hold nothing
    else; see ASSUMPTIONS)."""
    r = v * 8
    if r != int(r) or abs(r) >= 1 << 40:
        raise ToolError('position alphabet value %r is not a small multiple '
                        'of 1/8' % (v,))
    return int(r)


def position_case(ctx, flags, prior, vals, judge=True):
    L = lib()
    PAL, PKT = L.types.PositionAndLook, L.cplay.PlayerPositionAndLookPacket

    def fail(text, what='apply raises'):
        # one key per (flag set, axis, kind); each flag set is enumerated by
        # one worker in a fixed order, so the recorded case is deterministic
        ctx.violation(
            'position flags=0x%02X: %s' % (flags, what), text,
            {'part': 'position', 'flags': flags, 'prior': list(prior),
             'values': list(vals)})
    try:
        pkt = PKT(flags=flags, x=vals[0], y=vals[1], z=vals[2], yaw=vals[3],
                  pitch=vals[4])
        tgt = PAL(x=prior[0], y=prior[1], z=prior[2], yaw=prior[3],
                  pitch=prior[4])
        pkt.apply(tgt)
        got = [tgt.x, tgt.y, tgt.z, tgt.yaw, tgt.pitch]
    except Exception as e:
        fail('PlayerPositionAndLookPacket.apply raised %s: %s for '
             'flags=0x%02X values=%r on %r' % (type(e).__name__, e, flags,
                                               vals, prior))
        return None
    if not judge:
        return got
    for i in range(5):
        rel = flags >> i & 1
        exp = eighths(vals[i]) + (eighths(prior[i]) if rel else 0)
        if i >= 3:
            exp %= 2880                 # 360 degrees, in eighths
        g = got[i]
        ok = isinstance(g, (int, float)) and not isinstance(g, bool) \
            and g == g and abs(g) < 1e12 and g * 8 == exp
        if i >= 3 and ok:
            ok = 0 <= g < 360
        if not ok:
            fail('flags=0x%02X (%s %s) value %r on prior %r: %s ends as %r, '
                 'expected %r%s' % (
                     flags, AXES[i], 'relative' if rel else 'absolute',
                     vals[i], prior[i], AXES[i], g, exp / 8.0,
                     ' (wrapped into [0, 360))' if i >= 3 else ''),
                 '%s %s wrong' % ('relative' if rel else 'absolute', AXES[i]))
            return got
    return got


def position_tuples(tier, seed):
    rnd = random.Random('pos/%d' % seed)
    extra = [rnd.randrange(-8000, 8000) / 8.0,
             -360 - rnd.randrange(2880) / 8.0]
    values = P_VALUES + extra
    out = []
    for ax in range(5):
        for v in values:
            t = list(P_BASE)
            t[ax] = v
            out.append(t)
    small = values if tier == 'thorough' else [0, -90, 359.5, 720.25]
    out += [list(t) for t in itertools.product(small, repeat=5)]
    return out


def landing_tuples(flags, prior):
    """Packets that make yaw (pitch) end exactly on each of P_LANDINGS before
    wrapping - as an absolute value or, when the axis is relative in `flags`,
    as the delta from `prior` - alone and both angles together."""
    out = []
    delta = [prior[i] if flags >> i & 1 else 0 for i in range(5)]
    for t in P_LANDINGS:
        for axes in ((3,), (4,), (3, 4)):
            v = list(P_BASE)
            for ax in axes:
                v[ax] = t - delta[ax]
            out.append(v)
    return out


def w_position(sub, flags):
    n = 0
    for pi, prior in enumerate(P_PRIORS):
        if any(prior):
            sub.cls('position: flag set applied to a non-zero starting state')
        for vals in landing_tuples(flags, prior):
            for ax in (3, 4):
                end = eighths(vals[ax]) + (eighths(prior[ax])
                                           if flags >> ax & 1 else 0)
                kind = 'relative' if flags >> ax & 1 else 'absolute'
                if end % 2880 == 0:
                    sub.cls('position: %s angle lands exactly on %d'
                            % (kind, end // 8))
                elif end % 2880 in (1, 2879):
                    sub.cls('position: %s angle lands 1/8 %s a multiple of '
                            '360' % (kind, 'above' if end % 2880 == 1
                                     else 'below'))
        for vals in landing_tuples(flags, prior) + \
                position_tuples(sub.tier, sub.seed):
            n += 1
            got = position_case(sub, flags, prior, vals)
            if got is None:
                continue
            sub.transitions += 1
            sub.state(h64(repr(got)))
            wrapped = any(not 0 <= vals[i] + (prior[i] if flags >> i & 1
                                              else 0) < 360 for i in (3, 4))
            if wrapped:
                sub.cls('position: an angle had to be wrapped')
    sub.count(n)
    sub.note_distinct(n)
    sub.cls('position: flag sets with a relative bit' if flags
            else 'position: all absolute')


def position_walk(ctx):
    """One 200-packet history in lock-step (exact arithmetic)."""
    L = lib()
    rnd = random.Random('poswalk/%d' % ctx.seed)
    tgt = L.types.PositionAndLook(**dict(zip(AXES, P_PRIORS[1])))
    ref = [Fraction(v) for v in P_PRIORS[1]]
    hist = []
    vals_all = position_tuples('quick', ctx.seed)
    for step in range(200):
        flags = (step * 7 + rnd.randrange(32)) % 32
        vals = vals_all[rnd.randrange(len(vals_all))]
        hist.append([flags, vals])
        case = {'part': 'position-walk', 'history': hist}
        try:
            L.cplay.PlayerPositionAndLookPacket(
                flags=flags, **dict(zip(AXES, vals))).apply(tgt)
        except Exception as e:
            ctx.violation('position walk', 'apply raised %s: %s at step %d'
                          % (type(e).__name__, e, step), case)
            return
        for i in range(5):
            ref[i] = Fraction(vals[i]) + (ref[i] if flags >> i & 1 else 0)
            if i >= 3:
                ref[i] -= 360 * (ref[i] // 360)
        got = [getattr(tgt, a) for a in AXES]
        ctx.transitions += 1
        if [Fraction(g) for g in got] != ref:
            ctx.violation('position walk', 'after %d packets the tracker is '
                          '%r, replaying them gives %r'
                          % (step + 1, got, [float(r) for r in ref]), case)
            return
    ctx.traces += 1
    ctx.count()
    ctx.note_distinct(1)


def replay_position_walk(ctx, case):
    L = lib()
    tgt = L.types.PositionAndLook(**dict(zip(AXES, P_PRIORS[1])))
    ref = [Fraction(v) for v in P_PRIORS[1]]
    for step, (flags, vals) in enumerate(case['history']):
        try:
            L.cplay.PlayerPositionAndLookPacket(
                flags=flags, **dict(zip(AXES, vals))).apply(tgt)
        except Exception as e:
            ctx.violation('position walk', 'apply raised %s: %s at step %d'
                          % (type(e).__name__, e, step), case)
            return
        for i in range(5):
            ref[i] = Fraction(vals[i]) + (ref[i] if flags >> i & 1 else 0)
            if i >= 3:
                ref[i] -= 360 * (ref[i] // 360)
        got = [getattr(tgt, a) for a in AXES]
        if [Fraction(g) for g in got] != ref:
            ctx.violation('position walk', 'after %d packets the tracker is '
                          '%r, replaying them gives %r'
                          % (step + 1, got, [float(r) for r in ref]), case)
            return


# ---------------------------------------------------------------------------
# flag names

GEN_VALUES = [0, 1, 2, 3, 4, 8, 0x7F, 0x80]
GEN_NAMES = 'ABCD'


def own_members(cls, ints_only):
    out = []
    for n, v in vars(cls).items():
        if n.isupper() and (not ints_only or
                            (isinstance(v, int) and not isinstance(v, bool))):
            out.append((n, v))
    return out


def reachable(members):
    """Every value that is an OR of members (0 = the empty OR)."""
    reach = {0}
    for _, v in members:
        reach |= {r | v for r in reach}
    return reach


def judge_flag(ctx, cls, members, reach, value, ident, case, group=None):
    """members: [(name, int)] defined in the class's own namespace;
    case: thunk giving the replay record; group: key prefix (one per worker
    task, so that the recorded case does not depend on worker order)."""
    key = 'flags %s: ' % (group or ident)
    try:
        got = cls.name_from_value(value)
    except Exception as e:
        ctx.violation(key + 'raises %s' % type(e).__name__,
                      '%s.name_from_value(%d) raised %s: %s'
                      % (ident, value, type(e).__name__, e), case())
        return
    representable = value in reach
    if got is None:
        if representable:
            ctx.outcome('flags: None for a REPRESENTABLE value')
            ctx.violation(
                key + ('None for 0' if value == 0 else
                       'None for an OR of members'),
                '%s.name_from_value(%d) returned None although %d is an '
                'OR of members %r (0 is the empty OR)'
                % (ident, value, value, members), case())
        else:
            ctx.outcome('flags: None for an unrepresentable value')
        return
    if not isinstance(got, str):
        ctx.violation(key + 'not a string', '%s.name_from_value(%d) returned '
                      '%r, neither a name nor None' % (ident, value, got),
                      case())
        return
    table = dict(members)
    if got == '0' and '0' not in table:
        parsed = 0
        ctx.outcome('flags: literal 0')
        zero = [n for n, v in members if v == 0]
        if zero and value == 0:
            # '0' is the fallback for a class WITHOUT a name for zero
            ctx.violation(
                key + 'literal 0 although a zero member exists',
                '%s.name_from_value(0) = \'0\', but member %s names that '
                'value' % (ident, zero[0]), case())
            return
    else:
        parsed = 0
        for part in got.split('|'):
            v = table.get(part)
            if v is None:
                v = getattr(cls, part, None) if part.isupper() else None
            if not isinstance(v, int) or isinstance(v, bool):
                ctx.violation(
                    key + 'prints a non-member', '%s.name_from_value(%d) = '
                    '%r: %r is not a member name' % (ident, value, got, part),
                    case())
                return
            parsed |= v
        ctx.outcome('flags: %d name(s)' % (got.count('|') + 1))
    if parsed != value:
        ctx.violation(key + 'name parses back to another value',
                      '%s.name_from_value(%d) = %r, which parses back to %d'
                      % (ident, value, got, parsed), case())


def judge_enum(ctx, cls, value, ident, case):
    members = own_members(cls, False)
    try:
        got = cls.name_from_value(value)
    except Exception as e:
        ctx.violation('enum %s: raises' % ident,
                      '%s.name_from_value(%d) raised %s: %s'
                      % (ident, value, type(e).__name__, e), case)
        return
    has = [n for n, v in members if isinstance(v, int) and v == value]
    if got is None:
        ctx.outcome('enum: None')
        if has:
            ctx.violation('enum %s: None for a member value' % ident,
                          '%s.name_from_value(%d) returned None, member(s) '
                          '%r have that value' % (ident, value, has), case)
        return
    ctx.outcome('enum: name')
    if not isinstance(got, str) or got not in dict(members) or \
            dict(members)[got] != value:
        ctx.violation('enum %s: wrong name' % ident,
                      '%s.name_from_value(%d) = %r, which does not name a '
                      'member with that value' % (ident, value, got), case)


def gen_class(vals):
    BitFieldEnum = lib().types.BitFieldEnum
    return type('Gen', (BitFieldEnum,), dict(zip(GEN_NAMES, vals)))


def gen_values(seed):
    rnd = random.Random('flags/%d' % seed)
    extra = rnd.choice([v for v in range(256) if v not in GEN_VALUES])
    return GEN_VALUES + [extra]


def w_flags(sub, task):
    kind = task[0]
    L = lib()
    if kind == 'lib':
        for cls in library_classes(L.types.BitFieldEnum):
            ident = cls.__qualname__
            members = own_members(cls, True)
            sub.cls('flags: library flag enum %s (%d members)'
                    % (ident, len(members)))
            reach = reachable(members)
            for v in range(256):
                judge_flag(sub, cls, members, reach, v, ident,
                           lambda: {'part': 'flags', 'kind': 'lib',
                                    'cls': ident, 'value': v})
            sub.count(256)
            sub.note_distinct(256)
        plain = [c for c in library_classes(L.types.Enum)
                 if not issubclass(c, L.types.BitFieldEnum)]
        for cls in plain:
            ident = cls.__qualname__
            sub.cls('enum: library enum %s' % ident)
            for v in range(-1, 256):
                judge_enum(sub, cls, v, ident,
                           {'part': 'flags', 'kind': 'enum', 'cls': ident,
                            'value': v})
            sub.count(257)
            sub.note_distinct(257)
        return
    _, first, maxn = task
    values = gen_values(sub.seed)
    seqs = [()] if first is None else [
        (first,) + rest for n in range(0, maxn)
        for rest in itertools.product(values, repeat=n)]
    for vals in seqs:
        cls = gen_class(vals)
        members = list(zip(GEN_NAMES, vals))
        ident = 'Gen(%s)' % ', '.join('%s=%d' % m for m in members)
        sub.cls('flags: generated enum with %d members%s' % (
            len(vals), '' if 0 not in vals else ' incl. a zero member'))
        reach = reachable(members)
        for v in range(256):
            judge_flag(sub, cls, members, reach, v, ident,
                       lambda: {'part': 'flags', 'kind': 'gen',
                                'members': [list(m) for m in members],
                                'value': v},
                       group='generated enums %s' % (
                           'without members' if first is None
                           else 'with A=%d' % first))
        sub.count(256)
        sub.note_distinct(256)


# ---------------------------------------------------------------------------
# records

REC_VALUES_Q = [0, 1, 1.0, None, 'a']
REC_VALUES_T = [0, 1, 1.0, True, -0.0, None, 'a', (1, 2), [1]]


def generated_records():
    MR = lib().types.MutableRecord

    class R0(MR):
        __slots__ = ()

    class R2(MR):
        __slots__ = 'a', 'b'

    class R3(R2):                   # inherited slots
        __slots__ = 'c',

    class R3e(R3):                  # inherits everything, adds nothing
        __slots__ = ()

    class S1(MR):                   # __slots__ given as a plain string
        __slots__ = 'first'

    class S2(S1):
        __slots__ = 'second'

    class R2twin(MR):               # same fields as R2, different type
        __slots__ = 'a', 'b'
    return [R0, R2, R3, R3e, S1, S2, R2twin]


_RC = []


def record_classes():
    """(memoised: the generated classes must be the same objects for every
    member of a family, or the order of first use would mean nothing)"""
    import inspect
    if not _RC:
        L = lib()
        libc = [c for c in library_classes(L.types.MutableRecord)
                if not inspect.isabstract(c)]
        _RC.extend([('lib', c) for c in libc] +
                   [('gen', c) for c in generated_records()])
    return _RC


def make_record(cls, slots, values):
    """A real instance with exactly the given slots assigned."""
    MR = lib().types.MutableRecord
    kw = {s: v for s, v in zip(slots, values) if v is not UNSET}
    if cls.__init__ is MR.__init__:
        return cls(**kw)
    r = object.__new__(cls)
    for s, v in kw.items():
        setattr(r, s, v)
    return r


def record_instances(cls, tier, seed, light=False):
    """light: the full product of the value alphabet only up to 2 slots."""
    slots = own_slots(cls)
    vals = list(REC_VALUES_T if tier == 'thorough' else REC_VALUES_Q)
    vals.append(random.Random('rec/%d' % seed).randrange(2, 1 << 40))
    n = len(slots)
    tuples = []
    if n <= 2 or (not light and (
            n <= (3 if tier == 'thorough' else 2) or
            (n == 3 and len(vals) <= 6))):
        tuples = [list(t) for t in itertools.product(vals, repeat=n)]
    else:
        base = [100 + i for i in range(n)]
        tuples.append(base)
        for i in range(n):
            for v in vals:
                t = list(base)
                t[i] = v
                tuples.append(t)
        tuples += [[v] * n for v in vals]
    partial = []
    if n:
        base = [100 + i for i in range(n)]
        for i in range(n):
            t = list(base)
            t[i] = UNSET
            partial.append(t)
        partial.append([UNSET] * n)
        for i in range(n):      # twins of fully assigned [0, .., None, .., 0]
            t = [0] * n
            t[i] = UNSET
            if t not in partial:
                partial.append(t)
        if n > 1:
            t = [0] + list(base[1:])
            t[n - 1] = UNSET
            partial.append(t)
    return slots, tuples, partial


def fields_equal(x, y):
    return len(x) == len(y) and all(a == b for a, b in zip(x, y))


class _Noted(object):
    """A context whose violations carry a note on the order of events."""

    def __init__(self, ctx, note):
        self._ctx, self._note = ctx, note

    def violation(self, key, what, case):
        self._ctx.violation(key, what + self._note, case)

    def __getattr__(self, name):
        return getattr(self._ctx, name)


REC_ORDERS = ('base classes first', 'derived classes first',
              'MutableRecord itself first')


def record_family(idx):
    """Indices (into record_classes()) of the classes sharing idx's topmost
    record ancestor below MutableRecord, base classes first."""
    MR = lib().types.MutableRecord
    classes = record_classes()

    def root(c):
        return [k for k in c.__mro__ if issubclass(k, MR) and k is not MR][-1]
    r = root(classes[idx][1])
    fam = [i for i, (_, c) in enumerate(classes) if root(c) is r]
    fam.sort(key=lambda i: (len(classes[i][1].__mro__), i))
    return fam


def record_families():
    seen, out = set(), []
    for i in range(len(record_classes())):
        if i not in seen:
            fam = record_family(i)
            seen.update(fam)
            out.append(fam[0])
    return out


def w_record_family(sub, task):
    """All checks of w_records for every class of one family, in one process,
    in a stated order of first use: class-level state that one record class
    leaves behind for its relatives (e.g. a memo found through inheritance)
    only shows when the relative is used afterwards.  Each order runs in its
    own pool of freshly forked workers (the parent never uses a record), and
    families share nothing but MutableRecord itself."""
    first, order = task
    fam = record_family(first)
    if order == 'derived classes first':
        fam = fam[::-1]
    sub.cls('records: family of %d class(es), %s' % (len(fam), order))
    if len(fam) > 1:
        sub.cls('records: family with inheritance, ' + order)
    if order == 'MutableRecord itself first':
        MR = lib().types.MutableRecord
        sub.count()
        sub.note_distinct(1)
        try:
            a, b = MR(), MR()
            ok = (a == b) and not (a != b) and hash(a) == hash(b) \
                and list(a) == [] and isinstance(repr(a), str)
            why = 'two bare MutableRecord() do not compare/hash equal or ' \
                  'have fields' if not ok else None
        except Exception as e:
            why = 'using a bare MutableRecord() raised %s: %s' % (
                type(e).__name__, e)
        if why:
            sub.violation('records MutableRecord itself', why,
                          {'part': 'records', 'cls': first, 'order': order,
                           'tier': sub.tier, 'seed': sub.seed})
    for idx in fam:
        kind, cls = record_classes()[idx]
        # the full value product once per class: in the first order, and not
        # for a generated class that only inherits its fields
        light = order != REC_ORDERS[0] or (
            kind == 'gen' and not cls.__dict__.get('__slots__'))
        w_records(sub, idx, order, light)


def w_records(sub, idx, order=None, light=False):
    if order is not None:
        sub = _Noted(sub, ' [record classes of the family were first used in '
                          'the order: %s]' % order)
    kind, cls = record_classes()[idx]
    ident = '%s %s' % (kind, cls.__qualname__)
    slots, full, partial = record_instances(cls, sub.tier, sub.seed, light)
    sub.cls('records: class %s slots=%d%s' % (
        ident, len(slots),
        ' (inherited)' if sum(1 for k in cls.__mro__
                              if k.__dict__.get('__slots__')) > 1 else ''))

    def case(a, b):
        return {'part': 'records', 'cls': idx, 'name': cls.__qualname__,
                'tier': sub.tier, 'seed': sub.seed, 'order': order,
                'a': [brief(v) for v in a], 'b': [brief(v) for v in b],
                'ia': a_index.get(id(a)), 'ib': a_index.get(id(b))}
    allt = full + partial
    a_index = {id(t): i for i, t in enumerate(allt)}
    objs, hashes = [], []
    for t in allt:
        try:
            o = make_record(cls, slots, t)
        except Exception as e:
            sub.violation('records %s: cannot be constructed' % ident,
                          'constructing %s with %r raised %s: %s'
                          % (ident, t, type(e).__name__, e), case(t, t))
            return
        objs.append(o)
        try:
            hashes.append(('h', hash(o)))
        except TypeError:
            hashes.append(('unhashable',))
            sub.outcome('records: hash raises TypeError (unhashable field '
                        'value), not judged')
        except Exception as e:
            hashes.append(('raise', type(e).__name__))
            if UNSET in t:
                sub.outcome('records: hash of a record with unset slots '
                            'raises %s (not judged)' % type(e).__name__)
            else:
                sub.violation(
                    'records %s: hash raises' % ident,
                    'hash(%s with fields %r) raised %s: %s'
                    % (ident, t, type(e).__name__, e), case(t, t))
    nfull = len(full)
    # iteration / repr of fully assigned records
    for i in range(nfull):
        try:
            it = list(objs[i])
            repr(objs[i])
        except Exception as e:
            sub.violation('records %s: iter/repr raises' % ident,
                          'iterating or printing %s with fields %r raised '
                          '%s: %s' % (ident, full[i], type(e).__name__, e),
                          case(full[i], full[i]))
            continue
        if not same(it, full[i]):
            single = sum(1 for k in cls.__mro__
                         if k.__dict__.get('__slots__')) <= 1
            if single or sorted(map(repr, it)) != sorted(map(repr, full[i])):
                sub.violation(
                    'records %s: iteration does not yield the fields' % ident,
                    'list(%s with fields %r) = %r' % (ident, full[i], it),
                    case(full[i], full[i]))
    n = 0
    for i in range(len(allt)):
        for j in range(len(allt)):
            a, b = allt[i], allt[j]
            judged = i < nfull and j < nfull
            n += 1
            try:
                eq = objs[i] == objs[j]
                ne = objs[i] != objs[j]
            except AttributeError:
                if judged:
                    sub.violation(
                        'records %s: == raises AttributeError' % ident,
                        '%s: comparing fully assigned records %r and %r '
                        'raised AttributeError' % (ident, a, b), case(a, b))
                else:
                    sub.outcome('records: == on records with unset slots '
                                'raises AttributeError (not judged)')
                continue
            except Exception as e:
                sub.violation(
                    'records %s: == raises' % ident,
                    '%s: comparing %r and %r raised %s: %s'
                    % (ident, a, b, type(e).__name__, e), case(a, b))
                continue
            if not judged:
                sub.outcome('records: == on records with unset slots '
                            'returned %r (only "True => equal hash" judged)'
                            % (eq,))
            if eq is True or (eq and judged):
                sub.cls('records: equal pair')
                ha, hb = hashes[i], hashes[j]
                if ha[0] == 'h' and hb[0] == 'h' and ha != hb:
                    sub.violation(
                        'records %s: equal records hash differently' % ident,
                        '%s: records with fields %r and %r compare equal but '
                        'hash to %d and %d' % (ident, a, b, ha[1], hb[1]),
                        case(a, b))
                    continue
                if ha[0] == 'h' and hb[0] == 'h' and judged and \
                        repr(a) != repr(b):
                    sub.cls('records: equal pair with different field reprs '
                            '(1 == 1.0) hashing equally')
            if judged:
                want = fields_equal(a, b)
                if not want and sum(1 for x, y in zip(a, b)
                                    if not x == y) == 1:
                    sub.cls('records: pair differing in exactly one field')
                elif want and i != j:
                    sub.cls('records: equal pair of two distinct objects')
                if bool(eq) != want or bool(ne) != (not want):
                    sub.violation(
                        'records %s: == is not field-wise' % ident,
                        '%s: records with fields %r and %r: == gives %r and '
                        '!= gives %r, field-wise comparison gives %r'
                        % (ident, a, b, eq, ne, want), case(a, b))
    # a second, separately built record with the very same fields
    for i in range(nfull):
        n += 1
        try:
            twin = make_record(cls, slots, full[i])
            eq, ne = objs[i] == twin, objs[i] != twin
            th = ('h', hash(twin)) if hashes[i][0] == 'h' else hashes[i]
        except Exception as e:
            sub.violation('records %s: == raises' % ident,
                          '%s: comparing two records built from the same '
                          'fields %r raised %s: %s'
                          % (ident, full[i], type(e).__name__, e),
                          case(full[i], full[i]))
            continue
        sub.cls('records: two separately built records with the same fields')
        if not eq or ne:
            sub.violation(
                'records %s: == is not field-wise' % ident,
                '%s: two records built separately from the same fields %r: '
                '== gives %r and != gives %r' % (ident, full[i], eq, ne),
                case(full[i], full[i]))
        elif th != hashes[i]:
            sub.violation(
                'records %s: equal records hash differently' % ident,
                '%s: two records built separately from the same fields %r '
                'compare equal but hash to %d and %d'
                % (ident, full[i], hashes[i][1], th[1]),
                case(full[i], full[i]))
    n += records_mutated(sub, cls, ident, slots, case)
    sub.count(n)
    sub.note_distinct(n)


def records_mutated(sub, cls, ident, slots, case):
    """Records are mutable: after ONE field of a record that has already been
    hashed and compared is assigned, the record must compare (and hash) like
    a fresh record with the new fields, and differ from a fresh record with
    the old ones.  Every slot x every value of the class's value alphabet,
    from two starting records."""
    k = len(slots)
    vals = list(REC_VALUES_T if sub.tier == 'thorough' else REC_VALUES_Q)
    vals.append(random.Random('rec/%d' % sub.seed).randrange(2, 1 << 40))
    n = 0
    for start in ([100 + i for i in range(k)], [0] * k):
        for i in range(k):
            for v in vals:
                if v == start[i]:
                    continue
                after = list(start)
                after[i] = v
                n += 1
                try:
                    o = make_record(cls, slots, start)
                    old = make_record(cls, slots, start)
                    new = make_record(cls, slots, after)
                    try:
                        hash(o)
                    except TypeError:
                        pass
                    if not o == old:
                        continue        # reported by the pair enumeration
                    setattr(o, slots[i], v)
                    eq_new, eq_old = o == new, o == old
                    ne_new = o != new
                    try:
                        hashes = (hash(o), hash(new))
                    except TypeError:
                        hashes = None
                except Exception as e:
                    sub.violation(
                        'records %s: assigning a field raises' % ident,
                        '%s: building %r, assigning %s=%r and comparing '
                        'raised %s: %s' % (ident, start, slots[i], v,
                                           type(e).__name__, e),
                        case(start, after))
                    continue
                sub.cls('records: field assigned after the record was hashed '
                        'and compared')
                if not eq_new or ne_new or eq_old:
                    sub.violation(
                        'records %s: == is not field-wise after a field is '
                        'assigned' % ident,
                        '%s: a record built with fields %r, hashed, then '
                        'assigned %s=%r: == fresh record %r gives %r (!= '
                        'gives %r), == fresh record with the old fields '
                        'gives %r' % (ident, start, slots[i], v, after,
                                      eq_new, ne_new, eq_old),
                        case(start, after))
                elif hashes and hashes[0] != hashes[1]:
                    sub.violation(
                        'records %s: equal records hash differently after a '
                        'field is assigned' % ident,
                        '%s: a record built with fields %r, hashed, then '
                        'assigned %s=%r compares equal to a fresh record %r '
                        'but they hash to %d and %d'
                        % (ident, start, slots[i], v, after, hashes[0],
                           hashes[1]), case(start, after))
    return n


def records_cross(ctx):
    """Different record types with the same field values."""
    classes = [c for _, c in record_classes()]
    insts = []
    for ci, cls in enumerate(classes):
        slots = own_slots(cls)
        for base in (0, 1.0):
            vals = [base] * len(slots)
            try:
                insts.append((ci, cls, vals, make_record(cls, slots, vals)))
            except Exception:
                pass
    n = 0
    for (ci, ca, va, a), (cj, cb, vb, b) in itertools.product(insts, insts):
        if ca is cb:
            continue
        n += 1
        try:
            if a == b:
                ctx.outcome('records: equal across types')
                if hash(a) != hash(b) or not fields_equal(va, vb):
                    ctx.violation(
                        'records cross %s %s' % (ca.__qualname__,
                                                 cb.__qualname__),
                        '%s%r == %s%r but hashes/fields differ'
                        % (ca.__qualname__, va, cb.__qualname__, vb),
                        {'part': 'records-cross'})
            else:
                ctx.outcome('records: different types compare unequal')
        except TypeError:   # unhashable field value
            pass
        except Exception as e:
            ctx.violation(
                'records cross: == raises %s' % type(e).__name__,
                'comparing fully assigned %s%r with %s%r raised %s: %s'
                % (ca.__qualname__, va, cb.__qualname__, vb,
                   type(e).__name__, e), {'part': 'records-cross'})
    ctx.count(n)
    ctx.note_distinct(n)


# ---------------------------------------------------------------------------
# vectors

VEC_Q = [0, 1, -2, 2.5, 0.0]
VEC_T = [0, 1, -2, 2.5, 0.0, -0.5, 2 ** 31, 1e300]
SCALARS = [0, 1, -1, 2, 0.5, -3, 7, 2 ** 40, 1.0, -1.0, 0.0, -2.5, True]


_VT = []


def vector_types():
    if not _VT:
        V = lib().types.Vector
        _VT.extend([V] + library_classes(V))
    return _VT


def op_fn(name):
    import operator
    return {'add': operator.add, 'sub': operator.sub, 'mul': operator.mul,
            'rmul': lambda v, s: s * v, 'truediv': operator.truediv,
            'floordiv': operator.floordiv,
            'neg': lambda v, _: -v}[name]


def vector_case(ctx, op, li, ri, a, b):
    """a: component list of the vector operand; b: components of the second
    vector (add/sub) or a scalar."""
    types_ = vector_types()
    LT = types_[li]
    left = LT(*a)
    binary = op in ('add', 'sub')
    right = types_[ri](*b) if binary else b
    f = op_fn(op)

    def fail(text):
        expr = 'vectors %s %s%r %s%r' % (
            op, LT.__name__, tuple(a),
            types_[ri].__name__ if binary else '',
            tuple(b) if binary else b)
        key = 'vectors %s %s%s' % (op, LT.__name__, (
            ' ' + types_[ri].__name__) if binary else '')
        ctx.violation(key, expr + ' ' + text, {
            'part': 'vectors', 'op': op, 'lt': li, 'rt': ri, 'a': list(a),
            'b': list(b) if binary else b})
    try:
        if binary:
            exp = [f(x, y) for x, y in zip(a, b)]
        elif op == 'rmul':
            exp = [b * x for x in a]
        elif op == 'neg':
            exp = [-x for x in a]
        else:
            exp = [f(x, b) for x in a]
    except (ZeroDivisionError, OverflowError) as e:
        exp = type(e)
    try:
        got = f(left, right)
    except Exception as e:
        if exp is type(e):
            ctx.outcome('vectors: %s (as the component operation does)'
                        % exp.__name__)
            return
        fail('raised %s: %s; component-wise result is %r'
             % (type(e).__name__, e, exp))
        return
    if isinstance(exp, type):
        fail('returned %r although the component operation raises %s'
             % (got, exp.__name__))
    elif type(got) is not LT:
        fail('returned a %s (%r), expected a %s'
             % (type(got).__name__, got, LT.__name__))
    elif not same(list(got), exp):
        fail('= %r, component-wise result is %r' % (got, exp))


def w_vectors(sub, task):
    op, li, ri = task
    comps = VEC_T if sub.thorough else VEC_Q
    vecs = [list(t) for t in itertools.product(comps, repeat=3)]
    n = 0
    if op in ('add', 'sub'):
        for a in vecs:
            for b in vecs:
                vector_case(sub, op, li, ri, a, b)
                n += 1
        sub.cls('vectors: %s with %s operand types'
                % (op, 'equal' if li == ri else 'different'))
    elif op == 'neg':
        for a in vecs:
            vector_case(sub, op, li, ri, a, None)
            n += 1
    else:
        scal = SCALARS + [random.Random('vec/%d' % sub.seed).randrange(3, 999)]
        for a in vecs:
            for s in scal:
                vector_case(sub, op, li, ri, a, s)
                n += 1
        sub.cls('vectors: scalar %s' % op)
        for t in sorted(set(type(x).__name__ for x in scal)):
            sub.cls('vectors: %s with %s %s scalar' % (
                op, 'an' if t[0] in 'aeiou' else 'a', t))
    sub.count(n)
    sub.note_distinct(n)


# ---------------------------------------------------------------------------
# single-shot laws of the remaining helpers

def helper_laws():
    """[(name, fn)] - fn returns None or a description of the failure."""
    laws = []

    def law(fn):
        laws.append((fn.__name__, fn))
        return fn

    def ctx_for(pv):
        return lib().Context(protocol_version=pv)

    @law
    def overridable_property_packet_id():
        L = lib()
        K = L.cplay.KeepAlivePacket
        p = K()
        if p.id is not None:
            return 'KeepAlivePacket().id = %r without a context' % (p.id,)
        for pv in (47, 340, 757):
            c = ctx_for(pv)
            if K(context=c).id != K.get_id(c):
                return 'id with context %d = %r, get_id gives %r' % (
                    pv, K(context=c).id, K.get_id(c))
        p = K(context=ctx_for(47))
        p.id = 0x55             # instances may override
        if p.id != 0x55:
            return 'assigned id 0x55 reads back %r' % (p.id,)
        del p.id
        if p.id != K.get_id(ctx_for(47)):
            return 'after del, id = %r' % (p.id,)
        t = L.splay.TeleportConfirmPacket()
        if t.id != 0:
            return 'TeleportConfirmPacket().id = %r, class says 0' % (t.id,)

    @law
    def overridable_property_packet_definition():
        L = lib()
        S = L.cplay.ServerDifficultyPacket
        if S().definition is not None:
            return 'definition without a context is %r' % (S().definition,)
        for pv in (47, 757):
            c = ctx_for(pv)
            if S(context=c).definition != S.get_definition(c):
                return 'definition differs from get_definition at %d' % pv
        p = S(context=ctx_for(47))
        p.definition = [{'x': 1}]
        if p.definition != [{'x': 1}]:
            return 'assigned definition reads back %r' % (p.definition,)
        d = L.cplay.DisconnectPacket(context=ctx_for(47))
        if d.definition != L.cplay.DisconnectPacket.definition:
            return 'class-level definition is not what the instance reads'

    @law
    def overridable_property_synthetic():
        U = lib().utility

        class H(object):
            @U.overridable_property
            def v(self):
                return ('computed', self.k)
            k = 3
        h = H()
        if h.v != ('computed', 3):
            return 'getter result %r' % (h.v,)
        h.v = 9
        if h.v != 9:
            return 'instance attribute does not override: %r' % (h.v,)
        del h.v
        if h.v != ('computed', 3):
            return 'after del %r' % (h.v,)

    @law
    def descriptor_entity_type():
        L = lib()
        S = L.cplay.SpawnObjectPacket
        try:
            S.EntityType
            return 'class access to EntityType did not raise AttributeError'
        except AttributeError:
            pass
        for pv in (47, 393, 458, 757):
            c = ctx_for(pv)
            p = S(context=c)
            if p.EntityType is not S.field_enum('type_id', c):
                return 'instance EntityType is not field_enum(type_id) at %d' \
                    % pv
            try:        # a data descriptor: must not be shadowed silently
                p.EntityType = 1
                return 'EntityType could be assigned on an instance'
            except Exception as e:      # which exception is not judged
                OBSERVED.add('assigning SpawnObjectPacket().EntityType '
                             'raises %s' % type(e).__name__)
            for name in ('BOAT', 'EGG', 'MINECART'):
                p.type = name
                if p.type != name or \
                        p.type_id != getattr(p.EntityType, name):
                    return 'type=%r reads back %r (type_id %r) at %d' % (
                        name, p.type, p.type_id, pv)

    @law
    def descriptor_synthetic():
        U = lib().utility
        log = []

        class H(object):
            @U.descriptor
            def d(desc, inst, owner):
                return ('get', inst is None, owner.__name__)

            @d.setter
            def d(desc, inst, value):
                log.append(('set', value))

            @d.deleter
            def d(desc, inst):
                log.append(('del',))

            ro = U.descriptor(lambda desc, inst, owner: 5)
            od = U.overridable_descriptor(
                lambda desc, inst, owner: ('od', inst is None))
        h = H()
        if H.d != ('get', True, 'H') or h.d != ('get', False, 'H'):
            return 'raw __get__ arguments: %r / %r' % (H.d, h.d)
        h.d = 4
        del h.d
        if log != [('set', 4), ('del',)]:
            return 'setter/deleter calls %r' % (log,)
        if 'd' in vars(h):
            return 'data descriptor was shadowed by the instance dict'
        for act in ('set', 'del'):
            try:
                if act == 'set':
                    h.ro = 1
                else:
                    del h.ro
                return 'default %s did not raise' % act
            except Exception as e:      # which exception is not judged
                OBSERVED.add('descriptor without a %ster: %s raises %s'
                             % (act[:3], act, type(e).__name__))
        if h.ro != 5 or H.od != ('od', True) or h.od != ('od', False):
            return 'getter results %r %r %r' % (h.ro, H.od, h.od)
        h.od = 'mine'
        if h.od != 'mine':
            return 'overridable_descriptor not overridable: %r' % (h.od,)

    @law
    def class_and_instancemethod_binding():
        L = lib()
        U, T = L.utility, L.types

        class K(object):
            @U.class_and_instancemethod
            def who(x, extra=0):
                return (x, extra)

        class S(K):
            pass
        k = S()
        if K.who()[0] is not K or S.who()[0] is not S or k.who(2) != (k, 2):
            return 'binding: %r %r %r' % (K.who(), S.who(), k.who(2))
        if T.VarInt.read_with_context.__self__ is not T.VarInt:
            return 'VarInt.read_with_context is not bound to VarInt'
        arr = T.PrefixedArray(T.VarInt, T.String)
        if arr.read_with_context.__self__ is not arr:
            return 'PrefixedArray(...).read_with_context is not bound to ' \
                   'the instance'
        import io
        if T.VarInt.read_with_context(io.BytesIO(b'\x05'), None) != 5:
            return 'VarInt.read_with_context(05) != 5'
        if arr.read_with_context(io.BytesIO(b'\x02\x01a\x01b'),
                                 None) != ['a', 'b']:
            return 'PrefixedArray.read_with_context mis-dispatched'

    return laws


OBSERVED = set()


def run_laws(ctx, only=None):
    OBSERVED.clear()
    for name, fn in helper_laws():
        if only and name != only:
            continue
        ctx.count()
        ctx.note_distinct(1)
        case = {'part': 'law', 'name': name}
        try:
            why = fn()
        except Exception as e:
            why = 'raised %s: %s' % (type(e).__name__, e)
        if why:
            ctx.violation('law %s' % name, '%s: %s' % (name, why), case)
        else:
            ctx.outcome('law holds')
    for o in sorted(OBSERVED):
        ctx.outcome('observed, not judged: ' + o)


# ---------------------------------------------------------------------------

def _phase(t0, label):
    """VERIF_DEBUG=1: wall and CPU (incl. workers) per phase on stderr."""
    import os
    import sys
    import time
    t = os.times()
    now = (time.time(), t[0] + t[1] + t[2] + t[3])
    if os.environ.get('VERIF_DEBUG'):
        sys.stderr.write('  [c20] %-16s wall %6.1fs  cpu %7.1fs\n'
                         % (label, now[0] - t0[0], now[1] - t0[1]))
    return now


def run(ctx):
    L = lib()
    t0 = _phase((0, 0), 'start')
    # flags first: library discovery must not see classes generated later
    maxn = 4 if ctx.thorough else 3
    tasks = [('lib',), ('gen', None, maxn)] + \
            [('gen', v, maxn) for v in gen_values(ctx.seed)]
    ctx.pmap(w_flags, tasks)
    t0 = _phase(t0, 'flags')

    # records: before anything else touches a record in this process, so
    # that every order of first use gets freshly forked, untouched workers
    for order in REC_ORDERS:
        ctx.pmap(w_record_family, [(f, order) for f in record_families()])
    records_cross(ctx)
    t0 = _phase(t0, 'records')

    # trackers
    explore(ctx, 'playerlist', parallel=True, chunk=4)
    walks(ctx, 'playerlist', 12 if ctx.thorough else 4, 200)
    directed(ctx, 'playerlist', 5 if ctx.thorough else 4)
    t0 = _phase(t0, 'playerlist')
    explore(ctx, 'mapset', max_depth=2, parallel=True, chunk=2)
    explore(ctx, 'mapset-empty', max_depth=2, parallel=True, chunk=1)
    explore(ctx, 'map-direct-5x3', max_depth=1, parallel=False, chunk=1)
    if ctx.thorough:
        explore(ctx, 'mapset-one-id', max_depth=3, parallel=True, chunk=16)
        explore(ctx, 'map-direct-4x4', max_depth=2, parallel=True, chunk=2)
    else:
        explore(ctx, 'map-direct-4x4', max_depth=1, parallel=False, chunk=1)
    walks(ctx, 'mapset', 6 if ctx.thorough else 2, 200)
    # every in-bounds update shape (ragged ones included), all ordered pairs
    explore(ctx, 'map-shaped-4x3', max_depth=2, parallel=True, chunk=2)
    explore(ctx, 'map-shaped-heights-4x3', max_depth=1, parallel=False,
            chunk=1)
    explore(ctx, 'mapset-border-128', max_depth=2, parallel=True, chunk=1)
    explore(ctx, 'mapset-full-128', max_depth=2, parallel=True, chunk=1)
    if ctx.thorough:
        explore(ctx, 'map-shaped-5x4', max_depth=2, parallel=True, chunk=2)
    walks(ctx, 'mapset-border-128', 4 if ctx.thorough else 2, 200)
    walks(ctx, 'map-shaped-4x3', 4 if ctx.thorough else 2, 200)
    t0 = _phase(t0, 'maps')

    # position
    ctx.pmap(w_position, list(range(32)))
    position_walk(ctx)
    tiny = position_case(ctx.fork(), 0, P_PRIORS[0], [0, 0, 0, -1e-20, 0],
                         judge=False)
    ctx.extra['observation_yaw_-1e-20_absolute_ends_as'] = repr(
        tiny[3] if tiny else None)
    t0 = _phase(t0, 'position')

    # vectors
    nt = len(vector_types())
    vt = [(op, li, ri) for op in ('add', 'sub') for li in range(nt)
          for ri in range(nt)]
    vt += [(op, li, 0) for op in ('neg', 'mul', 'rmul', 'truediv', 'floordiv')
           for li in range(nt)]
    ctx.pmap(w_vectors, vt)
    t0 = _phase(t0, 'vectors')

    # aliases and the other helpers
    for name in sorted(alias_machines(ctx.seed)):
        explore(ctx, name, parallel=False, chunk=64)
    run_laws(ctx)
    t0 = _phase(t0, 'aliases+laws')

    # vacuity guards
    need = ['playerlist: add overwrites an existing entry',
            'playerlist: update of an unknown player (no-op)',
            'playerlist: remove of an unknown player (no-op)',
            'playerlist: update of a known player',
            'maps: packet for an unknown id creates a 128x128 map',
            'maps: packet without pixels', 'maps: patch 2x1',
            'maps: patch 1x2', 'position: an angle had to be wrapped',
            'records: equal pair', 'alias: assignment through an alias',
            # round 2
            'maps: ragged map update',
            'maps: ragged map update shorter than one row',
            'maps: ragged map update of one-and-a-bit rows',
            'maps: ragged map update of k rows plus 1 pixel',
            'maps: ragged map update of k rows minus 1 pixel',
            'maps: ragged map update of a 128x128 map',
            'maps: update of width 1',
            'maps: update touching the last column',
            'maps: update touching the last row',
            'maps: update touching the last column of a 128x128 map',
            'maps: update touching the last row of a 128x128 map',
            'maps: update ending exactly at the bottom-right border',
            'maps: update ending exactly at the bottom-right border of a '
            '128x128 map',
            'maps: update overlapping the previous update of that map',
            'maps: declared height differs from the rows carried',
            'playerlist: packet without actions (no-op)',
            'playerlist: three actions in one packet',
            'playerlist: same UUID several times in one packet with '
            'different values',
            'playerlist: same UUID twice in one packet around another UUID',
            'playerlist: add after remove after add of the same UUID '
            '(directed history)',
            'position: flag set applied to a non-zero starting state',
            'position: relative angle lands 1/8 below a multiple of 360',
            'position: absolute angle lands 1/8 above a multiple of 360',
            'records: pair differing in exactly one field',
            'records: equal pair of two distinct objects',
            'records: two separately built records with the same fields',
            'records: field assigned after the record was hashed and '
            'compared',
            'vectors: mul with a float scalar',
            'vectors: rmul with a float scalar']
    need += ['records: family with inheritance, ' + o for o in REC_ORDERS]
    need += ['playerlist: update of %s of %s player' % (f, k)
             for f in ('gamemode', 'ping', 'display_name')
             for k in ('a known', 'an unknown')]
    need += ['position: %s angle lands exactly on %d' % (k, a)
             for k in ('absolute', 'relative')
             for a in (0, 360, -360, 720)]
    if not ctx.violations:
        for c in need:
            if not ctx.classes.get(c):
                raise ToolError('vacuous run: class %r never hit' % c)
        if not ctx.extra['machines']['playerlist']['fixpoint']:
            raise ToolError('player list search did not reach a fixpoint')
    ctx.sample({'machine': 'playerlist',
                'first operations': [machine('playerlist', ctx.tier,
                                             ctx.seed).label(o)
                                     for o in machine('playerlist', ctx.tier,
                                                      ctx.seed).alphabet[:3]]})
    ctx.sample({'machine': 'mapset', 'first operations': [
        machine('mapset', ctx.tier, ctx.seed).label(o)
        for o in machine('mapset', ctx.tier, ctx.seed).alphabet[:3]]})
    ctx.sample({'flags': 'GameMode', 'names': [
        L.types.GameMode.name_from_value(v) for v in (0, 3, 8, 11, 4)]})
    ctx.extra['library_flag_enums'] = [
        c.__qualname__ for c in library_classes(L.types.BitFieldEnum)
        if c.__name__ != 'Gen']


def replay(ctx, case):
    lib()
    ctx.count()
    part = case['part']
    if part == 'machine':
        m = machine(case['machine'], ctx.tier, ctx.seed)
        lockstep(ctx, m, case['init'], case['ops'])
    elif part == 'position':
        position_case(ctx, case['flags'], case['prior'], case['values'])
    elif part == 'position-walk':
        replay_position_walk(ctx, case)
    elif part == 'flags':
        L = lib()
        if case['kind'] == 'gen':
            members = [(n, v) for n, v in case['members']]
            cls = gen_class([v for _, v in members])
            judge_flag(ctx, cls, members, reachable(members), case['value'],
                       'Gen(%s)' % ', '.join('%s=%d' % m for m in members),
                       lambda: case)
        else:
            base = L.types.Enum
            cls = [c for c in library_classes(base)
                   if c.__qualname__ == case['cls']][0]
            if case['kind'] == 'lib':
                mem = own_members(cls, True)
                judge_flag(ctx, cls, mem, reachable(mem), case['value'],
                           case['cls'], lambda: case)
            else:
                judge_enum(ctx, cls, case['value'], case['cls'], case)
    elif part == 'records':
        ctx.tier, ctx.seed = case['tier'], case['seed']
        if case.get('order'):
            w_record_family(ctx, (record_family(case['cls'])[0],
                                  case['order']))
        else:
            w_records(ctx, case['cls'])
    elif part == 'records-cross':
        records_cross(ctx)
    elif part == 'vectors':
        vector_case(ctx, case['op'], case['lt'], case['rt'], case['a'],
                    case['b'])
    elif part == 'law':
        run_laws(ctx, case['name'])
    else:
        raise ToolError('unknown replay part %r' % part)
