"""C04 - block positions use the 26/12/26-bit packing of the connection's
protocol; chunk-section and multi-block-change record packings are exact
inverses on their ranges.

Everything is enumerated: (protocol version) x (product of per-axis boundary
alphabets) for encoding, (protocol version) x (single-bit / adjacent-bit /
field-boundary words) for decoding, and the same for ChunkSectionPos and
MultiBlockChangePacket.Record.  The oracle is vf.refproto.position (integer
arithmetic, no pyCraft code).

Which layout a version must use (from the statement):
  * published up to and including protocol 404 (1.13.2): layout A  x|y|z
  * published from protocol 477 (1.14) on:               layout B  x|z|y
  * strictly between (the 1.14 snapshots): either, but as a function of
    publication rank the layout may switch only once (A...A B...B), and encode
    and decode must agree at every version.
So moving pyCraft's switch (currently 443) anywhere inside 441..477 is NOT a
violation as long as read and send move together.
"""
import random
import struct

from vf.runner import use_repo, ToolError
from vf.refproto import position as refpos
from vf.refproto.codec import varnum
from vf import explore, interleave

LEVEL = 'exploration'
RULE = ('Position: for each known protocol version (iterated from '
        'KNOWN_PROTOCOL_VERSIONS; rank = PROTOCOL_VERSION_INDICES) the layout '
        'is observed by encoding and by decoding a probe triple; it must be A '
        'up to 404, B from 477, monotone in rank in between, and equal for '
        'encode and decode.  Encode: full product of per-axis boundary sets '
        '(13 x-values x 10 y-values x 13 z-values incl. seed-derived extras), '
        'each triple given as Position and as tuple, bytes compared with the '
        'reference word and the reference word decoded back (exactly 8 bytes '
        'consumed).  Decode: all 64 single-bit words, all 63 adjacent-bit '
        'pairs, every word with one field at a sign-boundary value (others '
        'all-zero / all-one, both layouts), 0, 2^64-1, seed words: decoded '
        'triple = reference and re-encoding gives the word back.  quick: '
        'full product on versions within rank +-3 of 404/443/477/741/748, '
        'first, last and PRE-flagged versions with neighbours, and a 5x5x5 '
        'triple set on ALL versions; thorough: full product on all versions. '
        'ChunkSectionPos (22/22/20, x|z|y): same scheme, direct and through '
        'whole MultiBlockChangePacket write/read either side of 741 and 748. '
        'Record: all x,z in 0..15, y in 0..15 (>= 741) / 0..255 (< 741), '
        'block-state ids at every VarInt/VarLong width boundary, on versions '
        'around 741/748, first and last (thorough: also every other version '
        'with 2 ids).  Cases are distinct by construction; a case is '
        'non-trivial unless all its coordinates / its word / its record '
        'fields are zero.  Sessions: six orders of three versions (either side '
        'of 741 and of the layout switch) are coded one after the other in '
        'a throw-away child process that never coded anything before '
        '(positions, whole packets, records).  Histories: the probe through one long-lived context '
        'per version used alternately oldest/newest, and through one context '
        're-assigned in place across all versions, must show the layout a '
        'fresh context shows; one packet object written (write_packet '
        'force) to a connection at {oldest, 404, 477, newest} and then to '
        'a connection at every known version must put on the second wire '
        'what a fresh packet does; two Connection objects created before '
        'either has its version, then set in place and used alternately.  Concurrency: a thread assigning '
        'context.protocol_version races a thread encoding / decoding a '
        'position with that context (used before or not), version changes (757,404), (404,757), '
        '(443,441), (441,443), (47,757), every source line of types/basic, '
        'types/utility, minecraft/utility and ConnectionContext a '
        'scheduling point, all schedules with <= 2 (thorough 3) '
        'preemptions: the racing call shows one of the two layouts and '
        'afterwards the context shows the new version and its layout; and '
        'two connections (the two versions of each pair) encode two '
        'positions at the same time into a copying and into a retaining '
        'transport: each carries its own word.')
ASSUMPTIONS = ['publication rank is taken from minecraft.PROTOCOL_VERSION_'
               'INDICES of the tree under test (checked to be a bijection on '
               'KNOWN_PROTOCOL_VERSIONS containing 404, 443, 477, 741, 748)',
               'whole-packet cases: the packet id is parsed and skipped; the '
               'surrounding fields (Integer chunk_x/chunk_z before 741; from '
               '748 a Boolean invert_trust_edges between section position '
               'and records; VarInt record count) follow the protocol '
               'documentation']

PER_TASK_REPORTS = 3        # distinct violations recorded per task and op
PROBE = (0x1234567, 0x2A5, -0x0F0F0F1)
M64 = (1 << 64) - 1

FIELDS = {                   # (name, width, shift)
    'A': (('x', 26, 38), ('y', 12, 26), ('z', 26, 0)),
    'B': (('x', 26, 38), ('z', 26, 12), ('y', 12, 0)),
    'S': (('x', 22, 42), ('z', 22, 20), ('y', 20, 0)),
}
ENC = {'A': refpos.pos_xyz, 'B': refpos.pos_xzy, 'S': refpos.section}
DEC = {'A': refpos.unpos_xyz, 'B': refpos.unpos_xzy, 'S': refpos.unsection}


# -- environment -------------------------------------------------------------

class Env(object):
    pass


_ENV = []


def env():
    if _ENV:
        return _ENV[0]
    mc = use_repo()
    from minecraft.networking.connection import ConnectionContext
    from minecraft.networking.packets import PacketBuffer
    from minecraft.networking.types import Position
    from minecraft.networking.packets.clientbound.play import \
        MultiBlockChangePacket
    E = Env()
    E.Context, E.PacketBuffer, E.Position = \
        ConnectionContext, PacketBuffer, Position
    E.Packet = MultiBlockChangePacket
    E.Section = MultiBlockChangePacket.ChunkSectionPos
    E.Record = MultiBlockChangePacket.Record
    E.known = list(mc.KNOWN_PROTOCOL_VERSIONS)
    idx = mc.PROTOCOL_VERSION_INDICES
    try:
        E.rank = dict((v, idx[v]) for v in E.known)
    except KeyError as e:
        raise ToolError('version %r has no publication rank' % (e,))
    if len(set(E.known)) != len(E.known) or \
            len(set(E.rank.values())) != len(E.known):
        raise ToolError('publication ranks are not a bijection')
    for v in (404, 443, 477, 741, 748):
        if v not in E.rank:
            raise ToolError('protocol %d is not a known version' % v)
    if not E.rank[404] < E.rank[477] < E.rank[741] < E.rank[748]:
        raise ToolError('ranks of 404/477/741/748 out of order')
    E.by_rank = sorted(E.known, key=E.rank.get)
    _ENV.append(E)
    return E


def required_layout(E, v):
    r = E.rank[v]
    if r <= E.rank[404]:
        return 'A'
    if r >= E.rank[477]:
        return 'B'
    return None


def is_new(E, v):
    return E.rank[v] >= E.rank[741]


def has_flag(E, v):
    return E.rank[v] >= E.rank[748]


def word_bytes(w):
    return struct.pack('>Q', w)


def same_ints(got, want):
    try:
        t = tuple(got)
    except TypeError:
        return False
    return t == tuple(want) and all(
        isinstance(c, int) and not isinstance(c, bool) for c in t)


def decode_with(E, reader, data):
    """Run reader(buffer) on exactly `data`; -> (value, unread byte count)."""
    buf = E.PacketBuffer()
    buf.send(data)
    buf.reset_cursor()
    value = reader(buf)
    return value, len(buf.read())


def exc(e):
    return '%s(%s)' % (type(e).__name__, str(e)[:80])


# -- alphabets -----------------------------------------------------------------

def dedupe(seq):
    out, seen = [], set()
    for v in seq:
        if v not in seen:
            seen.add(v)
            out.append(v)
    return out


_ALPHA = {}


def alphabets(seed):
    if seed in _ALPHA:
        return _ALPHA[seed]
    rnd = random.Random(seed)

    def extra(bits, n):
        return [rnd.randrange(-(1 << (bits - 1)), 1 << (bits - 1))
                for _ in range(n)]
    A = {}
    wide = [0, 1, -1, 2, -2, 2**25 - 1, -2**25, 2**24, -2**24 - 1,
            12345678, -12345678]
    A['px'] = dedupe(wide + extra(26, 2))
    A['pz'] = dedupe(wide + extra(26, 2))
    A['py'] = dedupe([0, 1, -1, 2**11 - 1, -2**11, 2**10, -2**10 - 1, 63,
                      -64] + extra(12, 1))
    # the small set run on every version in the quick tier
    A['qx'] = dedupe([0, -1, 2**25 - 1, -2**25] + A['px'][-1:])
    A['qz'] = dedupe([1, -2, 2**25 - 1, -2**25] + A['pz'][-1:])
    A['qy'] = dedupe([0, -1, 2**11 - 1, -2**11] + A['py'][-1:])
    swide = [0, 1, -1, 2, -2, 2**21 - 1, -2**21, 2**20, -2**20 - 1,
             1234567, -1234567]
    A['sx'] = dedupe(swide + extra(22, 2))
    A['sz'] = dedupe(swide + extra(22, 2))
    A['sy'] = dedupe([0, 1, -1, 2**19 - 1, -2**19, 2**18, -2**18 - 1, 63,
                      -64] + extra(20, 1))
    seedwords = [rnd.getrandbits(64) for _ in range(4)]
    A['pwords'] = words(('A', 'B'), seedwords)
    A['swords'] = words(('S',), seedwords)
    # block-state ids: every width boundary of VarInt(state) and of
    # VarLong(state << 12 | ...)
    common = [0, 1, 127, 128, 255, 256, 16383, 16384, 2**21 - 1, 2**21,
              2**28 - 1, 2**28, 2**31 - 1]
    seeded = [rnd.randrange(1, 2**15), rnd.randrange(2**15, 2**31)]
    A['ids_old'] = dedupe(common + seeded)          # VarInt, < 2^31
    shifted = []                 # VarLong(state << 12 | ...) changes width
    for k in (2, 9, 16, 23, 30, 37, 44, 51):
        shifted += [2**k - 1, 2**k]
    A['ids_new'] = dedupe(common + shifted + [2**52 - 1] + seeded)
    A['ids_few'] = [300, 2**31 - 1]
    A['chunks'] = dedupe([(0, 0), (-1, -1), (2**31 - 1, -2**31), (1, -2),
                          (rnd.randrange(-2**31, 2**31),
                           rnd.randrange(-2**31, 2**31))])
    A['sections'] = dedupe([(0, 0, 0), (-1, -1, -1), (1, 2, 3),
                            (2**21 - 1, -2**19, -2**21),
                            (-2**21, 2**19 - 1, 2**21 - 1),
                            (A['sx'][-1], A['sy'][-1], A['sz'][-1])])
    _ALPHA[seed] = A
    return A


def words(layouts, seedwords):
    """Decode alphabet: 64-bit words, each once, in a fixed order."""
    out = [0, M64]
    out += [1 << k for k in range(64)]
    out += [3 << k for k in range(63)]
    for L in layouts:
        for name, width, shift in FIELDS[L]:
            ones = (1 << width) - 1
            sign = 1 << (width - 1)
            for val in (sign - 1, sign, ones, sign + 1, sign - 2, 1,
                        sign >> 1, (sign >> 1) - 1):
                out.append(val << shift)                      # others zero
                out.append((M64 & ~(ones << shift)) | (val << shift))
    out += seedwords
    return dedupe(out)


# -- Position ------------------------------------------------------------------

def probe(E, v, cx=None):
    """Observed (encode layout, decode layout) of version v; each 'A', 'B' or
    a description of what else happened."""
    if cx is None:
        cx = E.Context(protocol_version=v)
    wa, wb = word_bytes(refpos.pos_xyz(*PROBE)), \
        word_bytes(refpos.pos_xzy(*PROBE))
    try:
        buf = E.PacketBuffer()
        E.Position.send_with_context(PROBE, buf, cx)
        got = buf.get_writable()
        enc = 'A' if got == wa else 'B' if got == wb else \
            'neither (%s)' % got.hex()
    except Exception as e:
        enc = 'raised ' + exc(e)
    dec = []
    for name, data in (('A', wa), ('B', wb)):
        try:
            p, left = decode_with(
                E, lambda b: E.Position.read_with_context(b, cx), data)
            if same_ints(p, PROBE) and left == 0:
                dec.append(name)
        except Exception as e:
            dec.append('raised ' + exc(e))
    dec = dec[0] if len(dec) == 1 else 'neither %r' % (dec,)
    return enc, dec


def check_layout(ctx, E, v):
    """Judge the observed layout of one version; -> layout to hold the
    product against (None: nothing sensible to compare with)."""
    enc, dec = probe(E, v)
    req = required_layout(E, v)
    ctx.count()
    case = {'op': 'layout', 'version': v}
    where = 'protocol %d (rank %d)' % (v, E.rank[v])
    if req is not None:
        if enc != req or dec != req:
            ctx.violation(
                'layout v=%d required=%s' % (v, req),
                '%s must use layout %s (%s): probe %r encodes with layout %s '
                'and decodes with layout %s'
                % (where, req, 'x|y|z, published up to 404' if req == 'A'
                   else 'x|z|y, published from 477 on', PROBE, enc, dec),
                case)
        return req, enc, dec
    if enc not in ('A', 'B'):
        ctx.violation('layout v=%d unrecognised' % v,
                      '%s: encoding probe %r gives %s; expected layout A %s '
                      'or B %s' % (where, PROBE, enc,
                                   word_bytes(refpos.pos_xyz(*PROBE)).hex(),
                                   word_bytes(refpos.pos_xzy(*PROBE)).hex()),
                      case)
        return None, enc, dec
    if dec != enc:
        ctx.violation('layout v=%d encode/decode differ' % v,
                      '%s: Position.send_with_context uses layout %s but '
                      'read_with_context uses layout %s'
                      % (where, enc, dec), case)
    return enc, enc, dec


def check_monotone(ctx, E, observed):
    """observed: {version: encode layout}.  Between 404 and 477 the layout as
    a function of publication rank may switch only once, from A to B."""
    first_b = None
    lo, hi = E.rank[404], E.rank[477]
    for v in E.by_rank:
        if not lo <= E.rank[v] <= hi:
            continue
        lay = observed.get(v)
        if lay == 'B' and first_b is None:
            first_b = v
        elif lay == 'A' and first_b is not None:
            ctx.violation(
                'layout not monotone: B at %d, A at %d' % (first_b, v),
                'protocol %d (rank %d) uses layout B (x|z|y) but the later '
                'protocol %d (rank %d) uses layout A (x|y|z) again: more '
                'than one switch-over between 404 and 477'
                % (first_b, E.rank[first_b], v, E.rank[v]),
                {'op': 'monotone'})
            return
    return first_b


def pos_encode_err(E, cx, layout, xyz, form, back):
    x, y, z = xyz
    want = word_bytes(ENC[layout](x, y, z))
    arg = E.Position(x=x, y=y, z=z) if form == 'Position' else (x, y, z)
    try:
        buf = E.PacketBuffer()
        E.Position.send_with_context(arg, buf, cx)
        got = buf.get_writable()
    except Exception as e:
        return 'Position.send_with_context(%s %r) raised %s' % (
            form, xyz, exc(e))
    if got != want:
        return ('Position.send_with_context(%s %r) wrote %s, layout %s '
                'packing is %s' % (form, xyz, bytes(got).hex(), layout,
                                   want.hex()))
    if back:
        try:
            p, left = decode_with(
                E, lambda b: E.Position.read_with_context(b, cx), want)
        except Exception as e:
            return 'Position.read_with_context(%s) raised %s' % (
                want.hex(), exc(e))
        if not same_ints(p, xyz):
            return ('Position.read_with_context(%s) = %r, expected %r '
                    '(layout %s)' % (want.hex(), p, xyz, layout))
        if left:
            return ('Position.read_with_context left %d of 8 bytes unread'
                    % left)
    return None


def pos_decode_err(E, cx, layout, w):
    data = word_bytes(w)
    want = DEC[layout](w)
    try:
        p, left = decode_with(
            E, lambda b: E.Position.read_with_context(b, cx), data)
    except Exception as e:
        return 'Position.read_with_context(%s) raised %s' % (
            data.hex(), exc(e))
    if not same_ints(p, want):
        return ('Position.read_with_context(%s) = %r, expected %r (layout '
                '%s)' % (data.hex(), p, want, layout))
    if left:
        return 'Position.read_with_context left %d of 8 bytes unread' % left
    try:
        buf = E.PacketBuffer()
        E.Position.send_with_context(p, buf, cx)
        again = buf.get_writable()
    except Exception as e:
        return 're-encoding %r (decoded from %s) raised %s' % (
            p, data.hex(), exc(e))
    if again != data:
        return ('re-encoding %r (decoded from %s) gives %s'
                % (p, data.hex(), bytes(again).hex()))
    return None


class Limiter(object):
    def __init__(self, ctx):
        self.ctx, self.n = ctx, {}

    def report(self, group, key, what, case):
        self.ctx.outcome(group + ' FAIL')
        n = self.n.get(group, 0)
        self.n[group] = n + 1
        if n < PER_TASK_REPORTS:
            self.ctx.violation(key, what, case)


def w_position(ctx, task):
    _, v, layout, full = task
    E = env()
    A = alphabets(ctx.seed)
    cx = E.Context(protocol_version=v)
    lim = Limiter(ctx)
    xs, ys, zs = (A['px'], A['py'], A['pz']) if full else \
        (A['qx'], A['qy'], A['qz'])
    n = triv = 0
    for x in xs:
        for y in ys:
            for z in zs:
                xyz = (x, y, z)
                for form in ('Position', 'tuple'):
                    err = pos_encode_err(E, cx, layout, xyz, form,
                                         form == 'tuple')
                    n += 1
                    if err:
                        lim.report(
                            'pos-encode',
                            'pos-encode v=%d %s %r' % (v, form, xyz),
                            'protocol %d: %s' % (v, err),
                            {'op': 'pos-encode', 'version': v,
                             'xyz': list(xyz), 'form': form})
                if xyz == (0, 0, 0):
                    triv += 2
    ctx.outcome('pos-encode ok layout %s' % layout, n - lim.n.get(
        'pos-encode', 0))
    m = 0
    for w in A['pwords']:
        err = pos_decode_err(E, cx, layout, w)
        m += 1
        if err:
            lim.report('pos-decode', 'pos-decode v=%d %016x' % (v, w),
                       'protocol %d: %s' % (v, err),
                       {'op': 'pos-decode', 'version': v, 'word': '%016x' % w})
    ctx.outcome('pos-decode ok layout %s' % layout, m - lim.n.get(
        'pos-decode', 0))
    ctx.count(n + m)
    ctx.note_distinct(n + m - triv - 1)        # the zero word is trivial
    ctx.cls('position cases, full product' if full
            else 'position cases, small product', n + m)
    per = {'x': len(ys) * len(zs), 'y': len(xs) * len(zs),
           'z': len(xs) * len(ys)}
    for axis, vals, bits in (('x', xs, 26), ('y', ys, 12), ('z', zs, 26)):
        lo, hi = -(1 << (bits - 1)), (1 << (bits - 1)) - 1
        ctx.cls('encode with %s at its minimum' % axis,
                2 * per[axis] * vals.count(lo))
        ctx.cls('encode with %s at its maximum' % axis,
                2 * per[axis] * vals.count(hi))
    if v >= 1 << 30:
        ctx.cls('PRE-flagged version', 1)


# -- ChunkSectionPos -----------------------------------------------------------

def sec_encode_err(E, xyz, form):
    x, y, z = xyz
    want = word_bytes(refpos.section(x, y, z))
    arg = E.Section(x, y, z) if form == 'ChunkSectionPos' else (x, y, z)
    try:
        buf = E.PacketBuffer()
        E.Section.send(arg, buf)
        got = buf.get_writable()
    except Exception as e:
        return 'ChunkSectionPos.send(%s %r) raised %s' % (form, xyz, exc(e))
    if got != want:
        return ('ChunkSectionPos.send(%s %r) wrote %s, the 22/22/20 x|z|y '
                'packing is %s' % (form, xyz, bytes(got).hex(), want.hex()))
    try:
        p, left = decode_with(E, E.Section.read, want)
    except Exception as e:
        return 'ChunkSectionPos.read(%s) raised %s' % (want.hex(), exc(e))
    if not same_ints(p, xyz):
        return 'ChunkSectionPos.read(%s) = %r, expected %r' % (
            want.hex(), p, xyz)
    if left:
        return 'ChunkSectionPos.read left %d of 8 bytes unread' % left
    return None


def sec_decode_err(E, w):
    data = word_bytes(w)
    want = refpos.unsection(w)
    try:
        p, left = decode_with(E, E.Section.read, data)
    except Exception as e:
        return 'ChunkSectionPos.read(%s) raised %s' % (data.hex(), exc(e))
    if not same_ints(p, want):
        return 'ChunkSectionPos.read(%s) = %r, expected %r' % (
            data.hex(), p, want)
    if left:
        return 'ChunkSectionPos.read left %d of 8 bytes unread' % left
    try:
        buf = E.PacketBuffer()
        E.Section.send(p, buf)
        again = buf.get_writable()
    except Exception as e:
        return 're-encoding %r (decoded from %s) raised %s' % (
            p, data.hex(), exc(e))
    if again != data:
        return 're-encoding %r (decoded from %s) gives %s' % (
            p, data.hex(), bytes(again).hex())
    return None


def w_section(ctx, task):
    E = env()
    A = alphabets(ctx.seed)
    lim = Limiter(ctx)
    n = 0
    for x in A['sx']:
        for y in A['sy']:
            for z in A['sz']:
                for form in ('ChunkSectionPos', 'tuple'):
                    err = sec_encode_err(E, (x, y, z), form)
                    n += 1
                    if err:
                        lim.report('sec-encode',
                                   'sec-encode %s %r' % (form, (x, y, z)),
                                   err, {'op': 'sec-encode',
                                         'xyz': [x, y, z], 'form': form})
    ctx.outcome('sec-encode ok', n - lim.n.get('sec-encode', 0))
    m = 0
    for w in A['swords']:
        err = sec_decode_err(E, w)
        m += 1
        if err:
            lim.report('sec-decode', 'sec-decode %016x' % w, err,
                       {'op': 'sec-decode', 'word': '%016x' % w})
    ctx.outcome('sec-decode ok', m - lim.n.get('sec-decode', 0))
    ctx.count(n + m)
    ctx.note_distinct(n + m - 3)
    ctx.cls('chunk-section cases', n + m)


# -- Record --------------------------------------------------------------------

def rec_want(new, x, y, z, state):
    if new:
        return varnum(refpos.record_new(state, x, y, z))
    return refpos.record_old(state, x, y, z)


def rec_err(E, cx, new, x, y, z, state):
    want = rec_want(new, x, y, z, state)
    fmt = 'VarLong(state<<12|x<<8|z<<4|y)' if new else \
        'byte(x<<4|z) byte(y) VarInt(state)'
    what = 'Record(x=%d, y=%d, z=%d, block_state_id=%d)' % (x, y, z, state)
    try:
        rec = E.Record(x=x, y=y, z=z, block_state_id=state)
        buf = E.PacketBuffer()
        E.Record.send_with_context(rec, buf, cx)
        got = buf.get_writable()
    except Exception as e:
        return '%s: send_with_context raised %s' % (what, exc(e))
    if got != want:
        return '%s: send_with_context wrote %s, %s is %s' % (
            what, bytes(got).hex(), fmt, want.hex())
    try:
        r, left = decode_with(
            E, lambda b: E.Record.read_with_context(b, cx), want)
        back = (r.x, r.y, r.z, r.block_state_id)
    except Exception as e:
        return '%s: read_with_context(%s) raised %s' % (
            what, want.hex(), exc(e))
    if not same_ints(back, (x, y, z, state)):
        return '%s: read_with_context(%s) gives (x, y, z, state) = %r' % (
            what, want.hex(), back)
    if left:
        return '%s: read_with_context left %d of %d bytes unread' % (
            what, left, len(want))
    return None


def w_record(ctx, task):
    _, v, x, which = task
    E = env()
    A = alphabets(ctx.seed)
    cx = E.Context(protocol_version=v)
    new = is_new(E, v)
    ids = A['ids_few'] if which == 'few' else \
        A['ids_new'] if new else A['ids_old']
    lim = Limiter(ctx)
    n = 0
    for z in range(16):
        for y in range(16 if new else 256):
            for state in ids:
                err = rec_err(E, cx, new, x, y, z, state)
                n += 1
                if err:
                    lim.report(
                        'record',
                        'record v=%d x=%d y=%d z=%d state=%d'
                        % (v, x, y, z, state),
                        'protocol %d (%s record format): %s'
                        % (v, 'new' if new else 'old', err),
                        {'op': 'record', 'version': v, 'x': x, 'y': y,
                         'z': z, 'state': str(state)})
    ctx.outcome('record %s ok' % ('new' if new else 'old'),
                n - lim.n.get('record', 0))
    ctx.count(n)
    ctx.note_distinct(n - (1 if x == 0 and 0 in ids else 0))
    ctx.cls('record cases, %s format' % ('new' if new else 'old'), n)
    ctx.cls('record with multi-byte state', 16 * (16 if new else 256)
            * sum(1 for s in ids if len(varnum(s << 12 if new else s)) > 1))


# -- whole MultiBlockChangePacket ---------------------------------------------

def take_varnum(data, pos):
    n = shift = 0
    while True:
        b = data[pos]
        pos += 1
        n |= (b & 0x7F) << shift
        shift += 7
        if b < 0x80:
            return n, pos


def record_lists(E, A, new):
    ids = A['ids_new'] if new else A['ids_old']
    ymax = 15 if new else 255
    one = [(3, 7 if new else 200, 12, 300)]
    three = [(0, 0, 0, 0), (15, ymax, 15, ids[-1]), (1, 2, 3, 127)]
    many = [(i, (i * 37 + 5) % (ymax + 1), 15 - i, ids[(i * 5) % len(ids)])
            for i in range(16)]
    wide = [(15, ymax, 0, s) for s in ids]
    return [[], one, three, many, wide]


def packet_err(E, v, sec, chunk, flag, recs, form):
    cx = E.Context(protocol_version=v)
    new, flagged = is_new(E, v), has_flag(E, v)
    body = b''.join(rec_want(new, x, y, z, s) for x, y, z, s in recs)
    if new:
        fields = word_bytes(refpos.section(*sec))
        if flagged:
            fields += b'\x01' if flag else b'\x00'
    else:
        fields = struct.pack('>ii', *chunk)
    fields += varnum(len(recs)) + body
    desc = 'MultiBlockChangePacket(%s%s, %d records %r)' % (
        'chunk_section_pos=%r' % (tuple(sec),) if new
        else 'chunk_x=%d, chunk_z=%d' % tuple(chunk),
        ', invert_trust_edges=%r' % flag if flagged else '', len(recs),
        recs[:3])
    try:
        p = E.Packet(cx)
        if new:
            p.chunk_section_pos = E.Section(*sec) \
                if form == 'ChunkSectionPos' else tuple(sec)
            if flagged:
                p.invert_trust_edges = flag
        else:
            p.chunk_x, p.chunk_z = chunk
        p.records = [E.Record(x=x, y=y, z=z, block_state_id=s)
                     for x, y, z, s in recs]
        buf = E.PacketBuffer()
        p.write(buf)
        data = bytes(buf.get_writable())
    except Exception as e:
        return '%s: write raised %s' % (desc, exc(e))
    try:
        length, pos = take_varnum(data, 0)
        frame_ok = length == len(data) - pos
        _, pos = take_varnum(data, pos)         # packet id: not judged here
        got = data[pos:]
    except IndexError:
        frame_ok, got = False, b''
    if not frame_ok or got != fields:
        return ('%s: wrote %s; after the length and id the fields must be %s'
                % (desc, data.hex(), fields.hex()))
    try:
        q = E.Packet(cx)
        _, left = decode_with(E, q.read, fields)
        if new:
            head = tuple(q.chunk_section_pos)
            want_head = tuple(sec)
            if flagged:
                head += (q.invert_trust_edges,)
                want_head += (flag,)
        else:
            head, want_head = (q.chunk_x, q.chunk_z), tuple(chunk)
        back = [(r.x, r.y, r.z, r.block_state_id) for r in q.records]
    except Exception as e:
        return '%s: reading %s raised %s' % (desc, fields.hex(), exc(e))
    if head != want_head or not all(
            isinstance(c, int) for c in head) or (
            flagged and type(head[-1]) is not bool):
        return '%s: reading %s gives header %r, expected %r' % (
            desc, fields.hex(), head, want_head)
    if len(back) != len(recs) or not all(
            same_ints(b, r) for b, r in zip(back, recs)):
        return '%s: reading %s gives records %r' % (desc, fields.hex(), back)
    if left:
        return '%s: reading left %d of %d bytes unread' % (
            desc, left, len(fields))
    return None


def w_packet(ctx, task):
    _, v = task
    E = env()
    A = alphabets(ctx.seed)
    new, flagged = is_new(E, v), has_flag(E, v)
    lim = Limiter(ctx)
    n = 0
    heads = A['sections'] if new else A['chunks']
    for hi, head in enumerate(heads):
        for flag in ((False, True) if flagged else (None,)):
            for li, recs in enumerate(record_lists(E, A, new)):
                for form in (('ChunkSectionPos', 'tuple') if new
                             else ('-',)):
                    sec, chunk = (head, None) if new else (None, head)
                    err = packet_err(E, v, sec, chunk, flag, recs, form)
                    n += 1
                    if err:
                        lim.report(
                            'packet',
                            'packet v=%d head=%r flag=%r records=#%d %s'
                            % (v, head, flag, li, form),
                            'protocol %d: %s' % (v, err),
                            {'op': 'packet', 'version': v,
                             'sec': list(sec) if new else None,
                             'chunk': list(chunk) if not new else None,
                             'flag': flag, 'form': form,
                             'records': [[x, y, z, str(s)]
                                         for x, y, z, s in recs]})
    ctx.outcome('packet ok (%s)' % (
        'section+flag' if flagged else 'section' if new else 'chunk x/z'),
        n - lim.n.get('packet', 0))
    ctx.count(n)
    ctx.note_distinct(n)
    ctx.cls('whole-packet cases %s' % (
        '>= 748' if flagged else '741..747' if new else '< 741'), n)


# -- driver --------------------------------------------------------------------

def around(E, versions, d):
    out = set()
    for v in versions:
        r = E.rank[v]
        for k in range(max(0, r - d), min(len(E.by_rank), r + d + 1)):
            out.add(E.by_rank[k])
    return out


def boundary_versions(E):
    sel = around(E, (404, 443, 477, 741, 748), 3)
    sel |= {E.by_rank[0], E.by_rank[-1]}
    sel |= around(E, [v for v in E.known if v >= 1 << 30], 1)
    return sel


def w_any(ctx, task):
    {'pos': w_position, 'sec': w_section, 'rec': w_record,
     'pkt': w_packet}[task[0]](ctx, task)


# -- histories of contexts and packets; concurrent use ---------------------------
# "the packing of the connection's protocol": of the protocol the context has
# NOW, whatever it was before, whatever other contexts exist, and whichever
# connection a packet object went through before.

def check_context_histories(ctx, E, observed):
    zig = [w for pair in zip(E.by_rank, E.by_rank[::-1]) for w in pair]
    live = dict((v, E.Context(protocol_version=v)) for v in E.known)
    moving = E.Context(protocol_version=E.by_rank[0])
    n = 0
    for label in ('one long-lived context per version, used alternately',
                  'one context whose version is re-assigned in place'):
        for v in zig:
            if label.startswith('one context'):
                moving.protocol_version = v
                cx = moving
            else:
                cx = live[v]
            ctx.count()
            n += 1
            enc, dec = probe(E, v, cx)
            if (enc, dec) != (observed[v], observed[v]):
                ctx.violation(
                    'context-history v=%d' % v,
                    'protocol %d, %s: the probe encodes with layout %s and '
                    'decodes with %s; with a fresh context it is %s'
                    % (v, label, enc, dec, observed[v]),
                    {'op': 'context-history', 'version': v})
    ctx.cls('context histories (alternating / re-assigned in place)', n)


class _Wire(object):
    def __init__(self):
        self.data = b''

    def send(self, data):
        self.data += bytes(data)


def _placement(E):
    from minecraft.networking.packets import serverbound
    from minecraft.networking.types import RelativeHand, BlockFace
    p = serverbound.play.PlayerBlockPlacementPacket()
    p.location = E.Position(*PROBE)
    p.face = BlockFace.TOP
    p.hand = RelativeHand.MAIN
    p.x, p.y, p.z = 0.5, 1.0, 0.5
    p.inside_block = False
    return p


def _conn(E, v):
    from minecraft.networking.connection import Connection
    c = Connection('localhost', 25565, username='u')
    c.context.protocol_version = v
    c.socket = _Wire()
    return c


def packet_reuse_err(E, first, second):
    """The same packet object written to a connection at `first`, then to
    one at `second`: the second wire must carry what a fresh packet gives."""
    try:
        fresh = _conn(E, second)
        fresh.write_packet(_placement(E), force=True)
        want = fresh.socket.data
    except Exception:
        return None                 # nothing to compare with at this version
    pkt = _placement(E)
    c1, c2 = _conn(E, first), _conn(E, second)
    try:
        c1.write_packet(pkt, force=True)
    except Exception:
        return None
    try:
        c2.write_packet(pkt, force=True)
    except Exception as e:
        return 'the second write raised ' + exc(e)
    if c2.socket.data != want:
        return ('a block placement at %r written to a protocol-%d '
                'connection and then to a protocol-%d connection put %s on '
                'the second wire; a fresh packet gives %s'
                % (PROBE, first, second, c2.socket.data.hex(), want.hex()))
    return None


def two_connections_err(E, v, w):
    """Two Connection objects constructed BEFORE either gets its version (as
    two clients created at start-up are), then given their versions in place
    - which is what connect() does after negotiating - and used alternately."""
    from minecraft.networking.connection import Connection
    try:
        want = {}
        for x in (v, w):
            fresh = _conn(E, x)
            fresh.write_packet(_placement(E), force=True)
            want[x] = fresh.socket.data
    except Exception:
        return None
    conns = [Connection('localhost', 25565, username='u') for _ in (0, 1)]
    for c, x in zip(conns, (v, w)):
        c.context.protocol_version = x
    for i, x in ((0, v), (1, w), (0, v)):
        c = conns[i]
        c.socket = _Wire()
        try:
            c.write_packet(_placement(E), force=True)
        except Exception as e:
            return 'write on connection %d raised %s' % (i + 1, exc(e))
        if c.socket.data != want[x]:
            return ('two connections created up front, then set to '
                    'protocols %d and %d: connection %d (protocol %d) put %s '
                    'on its wire for a block placement at %r; alone it '
                    'gives %s' % (v, w, i + 1, x, c.socket.data.hex(), PROBE,
                                  want[x].hex()))
    return None


def check_packet_reuse(ctx, E):
    n = 0
    for v, w in ((340, 477), (477, 340), (757, 404), (404, 757), (47, 757)):
        ctx.count()
        err = two_connections_err(E, v, w)
        if err:
            ctx.violation('two-connections %d/%d' % (v, w), err,
                          {'op': 'two-connections', 'v': v, 'w': w})
    ctx.cls('two connections created before either has its version')
    for first in (E.by_rank[0], 404, 477, E.by_rank[-1]):
        for second in E.by_rank:
            ctx.count()
            n += 1
            err = packet_reuse_err(E, first, second)
            if err:
                ctx.violation('packet-reuse %d->%d' % (first, second), err,
                              {'op': 'packet-reuse', 'first': first,
                               'second': second})
    ctx.cls('one packet object written to two connections', n)


RACE_MODULES = ('minecraft.networking.types.basic',
                'minecraft.networking.types.utility',
                'minecraft.utility',
                'minecraft.networking.connection:ConnectionContext')
RACE_PAIRS = ((757, 404), (404, 757), (443, 441), (441, 443), (47, 757))


def race_body(W, params):
    E = env()
    v, w = params['from'], params['to']
    wa, wb = word_bytes(refpos.pos_xyz(*PROBE)), \
        word_bytes(refpos.pos_xzy(*PROBE))
    want_v, want_w = probe(E, v), probe(E, w)
    cx = E.Context(protocol_version=v)
    if params.get('warm'):
        probe(E, v, cx)             # the context has been in use

    def assign():
        cx.protocol_version = w

    def encode():
        buf = E.PacketBuffer()
        E.Position.send_with_context(PROBE, buf, cx)
        got = buf.get_writable()
        return 'A' if got == wa else 'B' if got == wb else got.hex()

    def decode():
        buf = E.PacketBuffer()
        buf.send(wa)
        buf.reset_cursor()
        p = E.Position.read_with_context(buf, cx)
        return 'A' if same_ints(p, PROBE) else 'B'

    ops = {'encode': encode, 'decode': decode}
    if params['op'] == 'encode||encode':
        return race_two_encoders(W, E, v, w)
    got = interleave.race(W, [assign, ops[params['op']]])
    viol = []
    i = 0 if params['op'] == 'encode' else 1
    if got[0] != ('ok', None):
        viol.append(('assignment raised', 'assigning protocol_version '
                     'raised %r' % (got[0],)))
    if got[1][0] != 'ok' or got[1][1] not in (want_v[i], want_w[i]):
        viol.append(('concurrent %s' % params['op'],
                     '%s of a position while the context moves from %d to '
                     '%d gave %r; layouts of the two versions: %s, %s'
                     % (params['op'], v, w, got[1], want_v[i], want_w[i])))
    after = probe(E, w, cx)
    if after != want_w or cx.protocol_version != w:
        viol.append(('stale layout after version change',
                     'the context moved from %d to %d while another thread '
                     'was in %s: afterwards protocol_version is %r, the '
                     'probe encodes with %s and decodes with %s; a fresh '
                     'context at %d gives %s/%s'
                     % (v, w, params['op'], cx.protocol_version, after[0],
                        after[1], w, want_w[0], want_w[1])))
    return {'outcome': (got[1], after), 'violations': viol}


class _Retain(object):
    """A transport that keeps what it is handed and looks at it later (a
    socket is free to do so until send() returns - and a wrapper may)."""
    def __init__(self):
        self.parts = []

    def send(self, data):
        self.parts.append(data)

    def value(self):
        return b''.join(bytes(p) for p in self.parts)


P2 = (-0x1F0F0F1, -0x2A5, 0x1234567)


def race_two_encoders(W, E, v, w):
    """Two connections of one process (protocols v and w) encode a position
    each at the same time, into a copying and into a retaining transport."""
    cxs = (E.Context(protocol_version=v), E.Context(protocol_version=w))
    pos = (PROBE, P2)
    want = []
    for cx, p in zip(cxs, pos):
        buf = E.PacketBuffer()
        E.Position.send_with_context(p, buf, cx)
        want.append(buf.get_writable())
    viol = []
    for kind in ('copying', 'retaining'):
        sinks = [E.PacketBuffer() if kind == 'copying' else _Retain()
                 for _ in cxs]

        def enc(i):
            E.Position.send_with_context(pos[i], sinks[i], cxs[i])
        got = interleave.race(W, [lambda: enc(0), lambda: enc(1)])
        for i in (0, 1):
            data = sinks[i].get_writable() if kind == 'copying' \
                else sinks[i].value()
            if got[i] != ('ok', None) or data != want[i]:
                viol.append(('two encoders, %s transport' % kind,
                             'protocols %d and %d encode %r and %r at the '
                             'same time into a %s transport: connection %d '
                             'carries %s (%r), expected %s'
                             % (v, w, pos[0], pos[1], kind, i + 1,
                                data.hex(), got[i], want[i].hex())))
    return {'outcome': 'two encoders', 'violations': viol}


def race_factory(params):
    def scenario(prefix, expect, visited=None, budget=0):
        return interleave.run(lambda W: race_body(W, params), prefix, expect,
                              budget, modules=RACE_MODULES)
    return scenario


def run_races(ctx, ex):
    bound = 3 if ctx.thorough else 2
    execs = 0
    for v, w in RACE_PAIRS:
        for op, warm in (('encode', False), ('encode', True),
                         ('decode', False), ('decode', True),
                         ('encode||encode', False)):
            res = ex.explore(ctx, race_factory,
                             {'from': v, 'to': w, 'op': op, 'warm': warm},
                             bound, label='race ')
            execs += res.execs
            ctx.cls('version change racing a position codec call')
    ctx.extra['concurrent'] = {
        'version_changes': [list(p) for p in RACE_PAIRS],
        'preemption_bound': bound, 'schedules_executed': execs,
        'points': 'every source line of ' + ', '.join(RACE_MODULES)}


# -- sessions of different versions one after the other in ONE process ----------
# The enumeration below is farmed out to pool workers in a seed-dependent
# order, so whether one process ever codes records on both sides of 741 (or
# positions on both sides of the layout switch) would be luck.  Here it is by
# construction: each order of versions runs in a throw-away child process that
# has never coded anything before.

SESSION_ORDERS = ((735, 751, 735), (751, 735, 751), (340, 757, 340),
                  (757, 340, 757), (404, 477, 404), (477, 404, 477))


def _sessions_in_child(proto, order):
    from vf.runner import Ctx
    sub = Ctx(*proto)
    E = env()
    for v in order:
        layout = check_layout(sub, E, v)[0]
        if layout is not None:
            w_position(sub, ('pos', v, layout, False))
        w_packet(sub, ('pkt', v))
        for x in (0, 15):
            w_record(sub, ('rec', v, x, 'few'))
    return sub.export()


def check_session_orders(ctx):
    for order in SESSION_ORDERS:
        d = explore.in_child(_sessions_in_child,
                             (ctx.pid, ctx.tier, ctx.seed, ctx.level), order)
        before = set(ctx.violations)
        ctx.absorb(d)
        for k in set(ctx.violations) - before:
            rec = ctx.violations[k]
            rec['what'] += ('  (Found in a process that coded for the '
                            'protocols %s in this order.)' % (list(order),))
            rec['case'] = {'op': 'sessions', 'order': list(order)}
        ctx.cls('sessions of several versions in one process, in order')


def run(ctx):
    use_repo()
    ex = explore.Explorer(memo=False)   # forks its workers before anything runs
    try:
        _run(ctx, ex)
    finally:
        ex.close()


def _run(ctx, ex):
    E = env()
    A = alphabets(ctx.seed)
    # 1. observed layouts, required layouts, single switch-over
    layouts, observed = {}, {}
    for v in E.known:
        layouts[v], enc, dec = check_layout(ctx, E, v)
        observed[v] = enc
        ctx.outcome('probe encode=%s decode=%s' % (enc[:7], dec[:7]))
    ctx.note_distinct(len(E.known))
    first_b = check_monotone(ctx, E, observed)
    if not ctx.violations:
        check_session_orders(ctx)
    if not ctx.violations:
        check_context_histories(ctx, E, observed)
        check_packet_reuse(ctx, E)
        run_races(ctx, ex)
    n_a = sum(1 for v in E.known if observed[v] == 'A')
    n_b = sum(1 for v in E.known if observed[v] == 'B')
    ctx.cls('versions observed with layout A', n_a)
    ctx.cls('versions observed with layout B', n_b)
    ctx.cls('versions where either layout is allowed',
            sum(1 for v in E.known if required_layout(E, v) is None))
    ctx.extra['known_versions'] = len(E.known)
    ctx.extra['layout_A_versions'] = n_a
    ctx.extra['layout_B_versions'] = n_b
    ctx.extra['switch_version'] = first_b
    ctx.extra['switch_rank'] = None if first_b is None else E.rank[first_b]
    ctx.extra['allowed_switch_ranks'] = [E.rank[404] + 1, E.rank[477]]
    # 2. tasks
    bnd = boundary_versions(E)
    tasks = []
    n_full = 0
    for v in E.known:
        if layouts[v] is None:
            continue            # already reported: nothing to compare with
        full = ctx.thorough or v in bnd
        n_full += full
        tasks.append(('pos', v, layouts[v], full))
    tasks.append(('sec',))
    rec_versions = around(E, (741, 748), 3) | {E.by_rank[0], E.by_rank[-1]}
    pkt_versions = around(E, (741, 748), 2) | {E.by_rank[0], E.by_rank[-1]}
    for v in E.by_rank:
        if v in rec_versions:
            tasks += [('rec', v, x, 'all') for x in range(16)]
        elif ctx.thorough:
            tasks += [('rec', v, x, 'few') for x in range(16)]
        if v in pkt_versions:
            tasks.append(('pkt', v))
    random.Random(ctx.seed).shuffle(tasks)       # order must not matter
    ctx.pmap(w_any, tasks, chunksize=4)
    ctx.extra['position_full_product_versions'] = n_full
    ctx.extra['position_triples_full'] = \
        len(A['px']) * len(A['py']) * len(A['pz'])
    ctx.extra['position_triples_small'] = \
        len(A['qx']) * len(A['qy']) * len(A['qz'])
    ctx.extra['position_decode_words'] = len(A['pwords'])
    ctx.extra['section_decode_words'] = len(A['swords'])
    ctx.extra['record_versions_full_ids'] = len(rec_versions)
    ctx.extra['record_versions'] = len(E.known) if ctx.thorough \
        else len(rec_versions)
    ctx.extra['block_state_ids'] = {'old': len(A['ids_old']),
                                    'new': len(A['ids_new'])}
    ctx.sample({'probe': list(PROBE),
                'layout A': word_bytes(refpos.pos_xyz(*PROBE)),
                'layout B': word_bytes(refpos.pos_xzy(*PROBE))})
    ctx.sample({'encode': [2**25 - 1, -2**11, -2**25], 'version': 404,
                'bytes': word_bytes(refpos.pos_xyz(2**25 - 1, -2**11,
                                                   -2**25))})
    ctx.sample({'encode': [2**25 - 1, -2**11, -2**25], 'version': 477,
                'bytes': word_bytes(refpos.pos_xzy(2**25 - 1, -2**11,
                                                   -2**25))})
    ctx.sample({'section': [-2**21, 2**19 - 1, 2**21 - 1],
                'bytes': word_bytes(refpos.section(-2**21, 2**19 - 1,
                                                   2**21 - 1))})
    ctx.sample({'record >= 741': [15, 15, 0, 16384],
                'bytes': rec_want(True, 15, 15, 0, 16384)})
    ctx.sample({'record < 741': [15, 255, 0, 16384],
                'bytes': rec_want(False, 15, 255, 0, 16384)})


def replay(ctx, case):
    E = env()
    op = case.get('op')
    ctx.count()
    if op == 'monotone':
        observed = dict((v, probe(E, v)[0]) for v in E.known)
        check_monotone(ctx, E, observed)
        return
    if op in ('sec-encode', 'sec-decode'):
        if op == 'sec-encode':
            xyz = tuple(case['xyz'])
            err = sec_encode_err(E, xyz, case['form'])
            key = 'sec-encode %s %r' % (case['form'], xyz)
        else:
            err = sec_decode_err(E, int(case['word'], 16))
            key = 'sec-decode %s' % case['word']
        if err:
            ctx.violation(key, err, case)
        return
    if 'choices' in case:
        x = race_factory(case['params'])(list(case['choices']), None, None,
                                         'replay')
        res = x.result or {}
        viol = list(res.get('violations', ()))
        if x.failure is not None:
            viol.append((x.failure[0], '%s: %s' % x.failure))
        for key, what in viol:
            ctx.violation('race %s' % key, what, case)
        return
    if op == 'sessions':
        check_session_orders(ctx)
        return
    if op == 'two-connections':
        err = two_connections_err(E, case['v'], case['w'])
        if err:
            ctx.violation('two-connections %d/%d' % (case['v'], case['w']),
                          err, case)
        return
    if op == 'packet-reuse':
        err = packet_reuse_err(E, case['first'], case['second'])
        if err:
            ctx.violation('packet-reuse %d->%d' % (case['first'],
                                                   case['second']), err, case)
        return
    if op == 'context-history':
        observed = dict((v, probe(E, v)[0]) for v in E.known)
        check_context_histories(ctx, E, observed)
        return
    v = case['version']
    if v not in E.rank:
        raise ToolError('protocol %r is not known to this tree' % (v,))
    cx = E.Context(protocol_version=v)
    if op == 'layout':
        check_layout(ctx, E, v)
        return
    if op in ('pos-encode', 'pos-decode'):
        layout = check_layout(ctx.fork(), E, v)[0]
        if layout is None:
            check_layout(ctx, E, v)
            return
        if op == 'pos-encode':
            xyz = tuple(case['xyz'])
            err = pos_encode_err(E, cx, layout, xyz, case['form'], True)
            key = 'pos-encode v=%d %s %r' % (v, case['form'], xyz)
        else:
            err = pos_decode_err(E, cx, layout, int(case['word'], 16))
            key = 'pos-decode v=%d %s' % (v, case['word'])
    elif op == 'record':
        x, y, z, s = case['x'], case['y'], case['z'], int(case['state'])
        err = rec_err(E, cx, is_new(E, v), x, y, z, s)
        key = 'record v=%d x=%d y=%d z=%d state=%d' % (v, x, y, z, s)
    elif op == 'packet':
        recs = [(x, y, z, int(s)) for x, y, z, s in case['records']]
        err = packet_err(E, v, case['sec'], case['chunk'], case['flag'],
                         recs, case['form'])
        key = 'packet v=%d replay' % v
    else:
        raise ToolError('unknown replay op %r' % (op,))
    if err:
        ctx.violation(key, 'protocol %d: %s' % (v, err), case)
