"""C08 - protocol versions are totally ordered by publication; the derived
tables are exactly the projections of the version records.

Part (a), configurations: every ordered pair (and triple) of the known
protocol numbers is put through the real predicates and compared with a rank
recomputed here from KNOWN_MINECRAFT_VERSION_RECORDS by plain loops.

Part (b), histories: explicit-state breadth-first search over run-time edits
of the records / of SUPPORTED_MINECRAFT_VERSIONS followed by initglobals, on
the REAL module objects, which are snapshotted and restored in place.

Nothing here imports pyCraft at module level and the oracle shares no code
with it (own PRE constant, own release-id matcher, own projections).
"""
import random

from vf.runner import use_repo, ToolError, JOBS

LEVEL = 'model_checking'
RULE = ('(a) All ordered pairs of the known protocol numbers (369 on the '
        'unchanged tree): six real calls per pair (ConnectionContext '
        'earlier/earlier_eq/later/later_eq, utility.protocol_earlier/'
        '_earlier_eq) against rank = index of the first record carrying the '
        'number; the axioms (irreflexive, antisymmetric, total, converse, '
        'eq = strict-or-equal, transitive over all triples) are checked a '
        'second time on the matrix of observed results without the rank; '
        'ordinary numbers must be numerically ordered along the record list, '
        'PRE-flagged ones among themselves, each PRE-flagged number strictly '
        'between the ordinary numbers that enclose it in the list.  Triples '
        '(v,start,end) by REAL calls: protocol_in_range == rank(start) <= '
        'rank(v) < rank(end), and transitivity of protocol_earlier and '
        'protocol_earlier_eq; quick = all triples over the versions within '
        '+-2 ranks of a PRE-flagged or duplicated-protocol version plus 8 '
        'seed-chosen versions, thorough = all triples over all known '
        'numbers.  (b) Breadth-first search over histories of <= 3 (quick) / '
        '<= 5 (thorough) actions from {append a record (number: new ordinary '
        '> all | existing | new PRE-flagged; supported or not; id shaped '
        'like a release or like a snapshot), append a record with the number '
        'of a seed-chosen record, insert a supported release-shaped record '
        'mid-list at two fixed anchors, initglobals(True), initglobals(False), '
        'add an entry to SUPPORTED_MINECRAFT_VERSIONS then initglobals()}; '
        'states deduplicated on (records, contents of the seven derived '
        'tables); every re-initialisation is judged, and repeated once to '
        'see that nothing changes when it ends a history of <= 4 actions '
        '(longer ones: only through histories ending init, init, which are '
        'judged against the projection); a history is judged at '
        'its last step, so the last level only applies the three '
        're-initialising actions); the search stops at the first level that '
        'contains a violation.  A history is non-trivial when it contains an '
        'edit before its final re-initialisation; histories are distinct by '
        'construction.')
ASSUMPTIONS = [
    'the version id strings used for run-time extension are new (no id is '
    'ever given two different protocol numbers; the statement does not say '
    'which would win)',
    'after initglobals(False) only SUPPORTED_PROTOCOL_VERSIONS, '
    'RELEASE_MINECRAFT_VERSIONS and RELEASE_PROTOCOL_VERSIONS are judged '
    '(against the current SUPPORTED_MINECRAFT_VERSIONS, which must be left '
    'as it was), as its docstring says',
    'quick tier: transitivity over ALL triples is evaluated on the matrix of '
    'pair results observed from the real predicates (predicates are pure '
    'functions of the index table); real-call triples cover the stated '
    'subset; the thorough tier makes the real calls for all triples',
    'the module state that matters to initglobals is the record list and '
    'the seven containers (these are what is snapshotted, restored in place '
    'and used, through a 64-bit value hash, to identify a state)',
]

PRE = 1 << 30
DICTS = ('KNOWN_MINECRAFT_VERSIONS', 'SUPPORTED_MINECRAFT_VERSIONS',
         'RELEASE_MINECRAFT_VERSIONS', 'PROTOCOL_VERSION_INDICES')
LISTS = ('KNOWN_PROTOCOL_VERSIONS', 'SUPPORTED_PROTOCOL_VERSIONS',
         'RELEASE_PROTOCOL_VERSIONS')
TABLES = ('KNOWN_MINECRAFT_VERSIONS', 'KNOWN_PROTOCOL_VERSIONS',
          'PROTOCOL_VERSION_INDICES', 'SUPPORTED_MINECRAFT_VERSIONS',
          'SUPPORTED_PROTOCOL_VERSIONS', 'RELEASE_MINECRAFT_VERSIONS',
          'RELEASE_PROTOCOL_VERSIONS')
T_IDX = dict((n, i + 1) for i, n in enumerate(TABLES))   # slot in a snapshot
UNORDERED = ('PROTOCOL_VERSION_INDICES',)   # a plain map: order is not judged
TWICE_UP_TO = 4           # explicit second initglobals call after histories <= 4
MAX_PER_TASK = 3          # violations recorded per triple task (all counted)


def fmt(p):
    if isinstance(p, int) and not isinstance(p, bool) and p & PRE:
        return 'PRE|%d' % (p ^ PRE)
    return repr(p)


# -- the real module objects ---------------------------------------------------

class Env(object):
    """Handles on the real objects + snapshot / in-place restore."""

    def __init__(self):
        M = use_repo()
        from minecraft import utility as U
        from minecraft.networking import connection as C
        self.M, self.U, self.C = M, U, C
        self.CC = C.ConnectionContext
        self.Version = M.Version
        self.records = M.KNOWN_MINECRAFT_VERSION_RECORDS
        self.objs = dict((n, getattr(M, n)) for n in TABLES)
        # objects other modules took by reference at import time
        self.holders = []
        for mod, mname in ((U, 'minecraft.utility'),
                           (C, 'minecraft.networking.connection')):
            for n in TABLES:
                if hasattr(mod, n):
                    self.holders.append((mod, mname, n, getattr(mod, n)))
        self.base = self.snapshot()

    def snapshot(self):
        M = self.M
        out = [tuple(M.KNOWN_MINECRAFT_VERSION_RECORDS)]
        for n in TABLES:
            o = getattr(M, n)
            out.append(tuple(o.items()) if hasattr(o, 'items') else tuple(o))
        return tuple(out)

    def restore(self, snap):
        M = self.M
        M.KNOWN_MINECRAFT_VERSION_RECORDS = self.records
        self.records[:] = snap[0]
        for n in TABLES:
            o = self.objs[n]
            setattr(M, n, o)
            if n in DICTS:
                o.clear()
                o.update(snap[T_IDX[n]])
            else:
                o[:] = snap[T_IDX[n]]
        for mod, _, n, o in self.holders:
            setattr(mod, n, o)

    def identity_failures(self):
        """Objects imported earlier by reference must be the live tables."""
        out = []
        M = self.M
        for n in TABLES:
            if getattr(M, n) is not self.objs[n]:
                out.append(('identity minecraft.%s' % n,
                            'minecraft.%s was rebound to a new object; code '
                            'that imported it by reference keeps the old one'
                            % n))
        for mod, mname, n, o in self.holders:
            if getattr(mod, n) is not getattr(M, n):
                out.append(('identity %s.%s' % (mname, n),
                            '%s.%s is no longer the same object as '
                            'minecraft.%s (update not seen by reference)'
                            % (mname, n, n)))
        return out


_ENV = None


def env():
    global _ENV
    if _ENV is None:
        _ENV = Env()
    return _ENV


def canon(snap):
    """64-bit identity of a state = (records, contents of the seven tables).
    Value-based tuple hash; ./check fixes PYTHONHASHSEED so it is stable."""
    return hash(snap) & 0xFFFFFFFFFFFFFFFF


# -- the independent oracle ----------------------------------------------------

_REL = {}


def is_release(s):
    """^\\d+(\\.\\d+)+$ for ASCII ids, written without re (memoised)."""
    r = _REL.get(s)
    if r is None:
        parts = s.split('.')
        r = len(parts) >= 2
        for p in parts:
            if p == '' or not p.isascii() or not p.isdigit():
                r = False
        _REL[s] = r
    return r


def first_ranks(records):
    """(numbers in order of first occurrence, number -> index of the first
    record carrying it, number -> how many records carry it); plain loops."""
    order, rank, howmany = [], {}, {}
    for i in range(len(records)):
        p = records[i][1]
        found = False
        for q in order:
            if q == p:
                found = True
                break
        if not found:
            order.append(p)
            rank[p] = i
            howmany[p] = 0
        howmany[p] += 1
    return order, rank, howmany


def dedup(seq):
    out, seen = [], set()
    for x in seq:
        if x not in seen:
            seen.add(x)
            out.append(x)
    return out


def project_supported(sup_items):
    """Tables that depend on SUPPORTED_MINECRAFT_VERSIONS (as item list)."""
    rel = [(i, p) for (i, p) in sup_items if is_release(i)]
    return {'SUPPORTED_PROTOCOL_VERSIONS': dedup(p for _, p in sup_items),
            'RELEASE_MINECRAFT_VERSIONS': rel,
            'RELEASE_PROTOCOL_VERSIONS': dedup(p for _, p in rel)}


_PROJ = [None, None]


def project(records):
    """Expected content of all seven tables; None if some id is given two
    different (protocol, supported) values (not defined by the statement)."""
    if _PROJ[0] is not None and _PROJ[0] == records:
        return _PROJ[1]
    _PROJ[0], _PROJ[1] = records, _project(records)
    return _PROJ[1]


def _project(records):
    byid = {}
    known, sup = [], []
    for r in records:
        i, p, s = r[0], r[1], bool(r[2])
        if i in byid:
            if byid[i] != (p, s):
                return None
            continue
        byid[i] = (p, s)
        known.append((i, p))
        if s:
            sup.append((i, p))
    kp = dedup(p for _, p in known)
    exp = {'KNOWN_MINECRAFT_VERSIONS': known, 'KNOWN_PROTOCOL_VERSIONS': kp,
           'PROTOCOL_VERSION_INDICES': [(p, k) for k, p in enumerate(kp)],
           'SUPPORTED_MINECRAFT_VERSIONS': sup}
    exp.update(project_supported(sup))
    return exp


def diff_text(name, got, exp):
    got, exp = list(got), list(exp)
    if name in UNORDERED:
        g, e = dict(got), dict(exp)
        miss = [k for k in e if k not in g]
        extra = [k for k in g if k not in e]
        wrong = [k for k in e if k in g and g[k] != e[k]]
        if len(g) != len(got):
            return 'repeated keys'
        return ('%d entries, expected %d; missing %s; unexpected %s; wrong '
                'value at %s' % (len(g), len(e),
                                 [fmt(k) for k in miss[:4]],
                                 [fmt(k) for k in extra[:4]],
                                 ['%s: got %r, expected %r'
                                  % (fmt(k), g[k], e[k]) for k in wrong[:4]]))
    n = 0
    while n < len(got) and n < len(exp) and got[n] == exp[n]:
        n += 1

    def show(x):
        if isinstance(x, tuple):
            return '(%r, %s)' % (x[0], fmt(x[1]))
        return fmt(x)
    return ('%d entries, expected %d; first difference at position %d: got '
            '%s, expected %s' % (len(got), len(exp), n,
                                 show(got[n]) if n < len(got) else 'nothing',
                                 show(exp[n]) if n < len(exp) else 'nothing'))


def table_failures(snap, exp, names):
    out = []
    for n in names:
        got = snap[T_IDX[n]]
        if n in UNORDERED:
            ok = len(got) == len(exp[n]) and dict(got) == dict(exp[n])
        else:
            ok = list(got) == list(exp[n])
        if not ok:
            out.append(('table %s' % n, '%s is not the order-preserving '
                        'duplicate-free projection of its source: %s'
                        % (n, diff_text(n, got, exp[n]))))
    return out


def pair_expect(ra, rb):
    return (ra < rb, ra <= rb, ra > rb, ra >= rb, ra < rb, ra <= rb)


PAIR_NAMES = ('ConnectionContext.protocol_earlier',
              'ConnectionContext.protocol_earlier_eq',
              'ConnectionContext.protocol_later',
              'ConnectionContext.protocol_later_eq',
              'utility.protocol_earlier', 'utility.protocol_earlier_eq')


def pair_observe(e, a, b):
    """The six real results for (a, b); an exception replaces a value."""
    c = e.CC(protocol_version=a)
    fns = ((c.protocol_earlier, (b,)), (c.protocol_earlier_eq, (b,)),
           (c.protocol_later, (b,)), (c.protocol_later_eq, (b,)),
           (e.U.protocol_earlier, (a, b)), (e.U.protocol_earlier_eq, (a, b)))
    got = []
    for fn, args in fns:
        try:
            got.append(fn(*args))
        except Exception as x:
            got.append('raised %s(%s)' % (type(x).__name__, x))
    return tuple(got)


def pair_failures(e, rank, a, b):
    got = pair_observe(e, a, b)
    exp = pair_expect(rank[a], rank[b])
    out = []
    for name, g, x in zip(PAIR_NAMES, got, exp):
        if isinstance(g, str) or bool(g) != x:
            if name.startswith('utility'):
                call = '%s(%s, %s)' % (name, fmt(a), fmt(b))
            else:
                call = ('ConnectionContext(protocol_version=%s).%s(%s)'
                        % (fmt(a), name.split('.')[1], fmt(b)))
            out.append(('%s' % name.split('.')[1] if not
                        name.startswith('utility') else name,
                        '%s = %r, expected %r: %s is record #%d and %s is '
                        'record #%d of the version list'
                        % (call, g, x, fmt(a), rank[a], fmt(b), rank[b])))
    return out


def inrange_failure(e, rank, v, s, t):
    exp = rank[s] <= rank[v] < rank[t]
    try:
        got = e.CC(protocol_version=v).protocol_in_range(s, t)
    except Exception as x:
        got = 'raised %s(%s)' % (type(x).__name__, x)
    if isinstance(got, str) or bool(got) != exp:
        return ('ConnectionContext(protocol_version=%s).protocol_in_range(%s, '
                '%s) = %r, expected %r (records #%d, #%d, #%d)'
                % (fmt(v), fmt(s), fmt(t), got, exp, rank[v], rank[s],
                   rank[t]))
    return None


# -- part (a): configurations ---------------------------------------------------

def check_base_tables(ctx, e):
    """The tables as left by `import minecraft`."""
    snap = e.snapshot()
    exp = project(snap[0])
    if exp is None:
        ctx.cls('base records: an id with two meanings (tables not judged)')
        return []
    fails = table_failures(snap, exp, TABLES) + e.identity_failures()
    for label, text in fails:
        ctx.violation('base %s' % label, 'after import: ' + text,
                      {'op': 'base-tables'})
    return fails


def check_records_order(ctx, records):
    """Numeric order of ordinary numbers / of PRE-flagged numbers along the
    list (equal neighbours allowed: several ids share a number)."""
    bad = 0
    last = {False: None, True: None}
    for i in range(len(records)):
        p = records[i][1]
        flagged = bool(p & PRE)
        prev = last[flagged]
        if prev is not None and p < prev[1]:
            bad += 1
            ctx.violation(
                'records-order %s after %s' % (fmt(p), fmt(prev[1])),
                'record #%d %r carries %s number %s although the earlier '
                'record #%d %r carries the larger %s: the list is not in '
                'order of publication, so the order derived from it is wrong'
                % (i, records[i][0],
                   'PRE-flagged' if flagged else 'ordinary', fmt(p),
                   prev[0], records[prev[0]][0], fmt(prev[1])),
                {'op': 'records-order'})
        if prev is None or p >= prev[1]:
            last[flagged] = (i, p)
    return bad


def enclosing(records, rank, p):
    """Ordinary numbers enclosing the first record that carries PRE number p:
    (last ordinary number before it, first larger ordinary number after)."""
    i = rank[p]
    lower = upper = None
    for j in range(i - 1, -1, -1):
        if not records[j][1] & PRE:
            lower = records[j][1]
            break
    for j in range(i + 1, len(records)):
        q = records[j][1]
        if not q & PRE and (lower is None or q > lower):
            upper = q
            break
    return lower, upper


def check_placement(ctx, e, records, rank, p):
    lower, upper = enclosing(records, rank, p)
    case = {'op': 'placement', 'protocol': p}
    n = 0
    for lo, hi in ((lower, p), (p, upper)):
        if lo is None or hi is None:
            continue
        got = pair_observe(e, lo, hi)
        if any(isinstance(g, str) for g in got) or \
                tuple(bool(g) for g in got) != pair_expect(0, 1):
            n += 1
            ctx.violation(
                'placement %s' % fmt(p),
                '%s was published after %s and before %s (its record #%d %r '
                'lies between theirs) but the predicates for (%s, %s) give '
                '%r, expected %r' % (fmt(p), fmt(lower), fmt(upper), rank[p],
                                     records[rank[p]][0], fmt(lo), fmt(hi),
                                     got, pair_expect(0, 1)), case)
    return n


def check_pair(ctx, e, rank, a, b):
    fails = pair_failures(e, rank, a, b)
    for label, text in fails:
        ctx.violation('pair %s %s %s' % (fmt(a), fmt(b), label), text,
                      {'op': 'pair', 'a': a, 'b': b})
    return len(fails)


def pairs_all(ctx, e, K, rank):
    """All ordered pairs; returns the observed strict matrix as bit rows."""
    CC, ue, uee = e.CC, e.U.protocol_earlier, e.U.protocol_earlier_eq
    pos = dict((p, k) for k, p in enumerate(K))
    rows = [0] * len(K)           # bit k of rows[j]: earlier(K[j], K[k])
    rows_eq = [0] * len(K)
    rows_later = [0] * len(K)
    rows_later_eq = [0] * len(K)
    outcomes = {}
    for a in K:
        c = CC(protocol_version=a)
        f1, f2, f3, f4 = (c.protocol_earlier, c.protocol_earlier_eq,
                          c.protocol_later, c.protocol_later_eq)
        ra, ja = rank[a], pos[a]
        for b in K:
            rb = rank[b]
            try:
                got = (f1(b), f2(b), f3(b), f4(b), ue(a, b), uee(a, b))
            except Exception:
                got = None
            if got != (ra < rb, ra <= rb, ra > rb, ra >= rb, ra < rb,
                       ra <= rb):
                check_pair(ctx, e, rank, a, b)
                got = pair_observe(e, a, b)
            bit = 1 << pos[b]
            if got[0] is True or got[0] == 1:
                rows[ja] |= bit
            if got[1] is True or got[1] == 1:
                rows_eq[ja] |= bit
            if got[2] is True or got[2] == 1:
                rows_later[ja] |= bit
            if got[3] is True or got[3] == 1:
                rows_later_eq[ja] |= bit
            outcomes[got[:4]] = outcomes.get(got[:4], 0) + 1
    n = len(K) * len(K)
    ctx.count(n)
    ctx.note_distinct(n)
    for got, cnt in outcomes.items():
        ctx.outcome('pair earlier,earlier_eq,later,later_eq=%s'
                    % ','.join(str(g)[:12] for g in got), cnt)
    return pos, rows, rows_eq, rows_later, rows_later_eq


def axioms(ctx, K, pos, rows, rows_eq, rows_later, rows_later_eq):
    """The order axioms on the observed results alone (no rank)."""
    n = len(K)
    full = (1 << n) - 1

    def bad(key, text, case):
        ctx.violation('axiom ' + key, text, case)

    def lowest(bits):
        return K[(bits & -bits).bit_length() - 1]
    for j, a in enumerate(K):
        me = 1 << j
        if rows[j] & me:
            bad('irreflexive %s' % fmt(a), 'protocol_earlier(%s, %s) is true'
                % (fmt(a), fmt(a)), {'op': 'pair', 'a': a, 'b': a})
        # converse: later(a, b) == earlier(b, a), column j of rows
        col = 0
        for k in range(n):
            if rows[k] >> j & 1:
                col |= 1 << k
        if col != rows_later[j]:
            b = lowest(col ^ rows_later[j])
            bad('converse %s %s' % (fmt(a), fmt(b)),
                'protocol_later(%s, %s) differs from protocol_earlier(%s, %s)'
                % (fmt(a), fmt(b), fmt(b), fmt(a)),
                {'op': 'pair', 'a': a, 'b': b})
        if rows[j] & col:
            b = lowest(rows[j] & col)
            bad('antisymmetric %s %s' % (fmt(a), fmt(b)),
                'both protocol_earlier(%s, %s) and protocol_earlier(%s, %s)'
                % (fmt(a), fmt(b), fmt(b), fmt(a)),
                {'op': 'pair', 'a': a, 'b': b})
        if (rows[j] | col | me) != full:
            b = lowest(full ^ (rows[j] | col | me))
            bad('total %s %s' % (fmt(a), fmt(b)),
                'neither protocol_earlier(%s, %s) nor protocol_earlier(%s, '
                '%s) although the numbers differ' % (fmt(a), fmt(b), fmt(b),
                                                     fmt(a)),
                {'op': 'pair', 'a': a, 'b': b})
        if rows_eq[j] != (rows[j] | me):
            b = lowest(rows_eq[j] ^ (rows[j] | me))
            bad('earlier_eq %s %s' % (fmt(a), fmt(b)),
                'protocol_earlier_eq(%s, %s) is not (earlier or equal)'
                % (fmt(a), fmt(b)), {'op': 'pair', 'a': a, 'b': b})
        if rows_later_eq[j] != (rows_later[j] | me):
            b = lowest(rows_later_eq[j] ^ (rows_later[j] | me))
            bad('later_eq %s %s' % (fmt(a), fmt(b)),
                'protocol_later_eq(%s, %s) is not (later or equal)'
                % (fmt(a), fmt(b)), {'op': 'pair', 'a': a, 'b': b})
        # transitivity: a < b  =>  everything after b is after a
        rest = rows[j]
        while rest:
            low = rest & -rest
            k = low.bit_length() - 1
            rest ^= low
            leak = rows[k] & ~rows[j]
            if leak:
                c = lowest(leak)
                bad('transitive %s %s %s' % (fmt(a), fmt(K[k]), fmt(c)),
                    '%s earlier than %s and %s earlier than %s, but %s is '
                    'not earlier than %s' % (fmt(a), fmt(K[k]), fmt(K[k]),
                                             fmt(c), fmt(a), fmt(c)),
                    {'op': 'trans', 'a': a, 'b': K[k], 'c': c,
                     'pred': 'protocol_earlier'})
    ctx.cls('axioms checked on the observed pair matrix, triples',
            n * n * n)


def triple_domain(K, howmany, tier, seed):
    if tier == 'thorough':
        return list(K)
    keep = set()
    for k, p in enumerate(K):
        if p & PRE or howmany[p] > 1:
            for d in (-2, -1, 0, 1, 2):
                if 0 <= k + d < len(K):
                    keep.add(k + d)
    rnd = random.Random(seed)
    for _ in range(8):
        keep.add(rnd.randrange(len(K)))
    return [K[k] for k in sorted(keep)]


def w_triples(ctx, task):
    """Real calls for every (v, s, t), v from this task, s and t from D."""
    vs, D = task
    e = env()
    e.restore(e.base)
    K, rank, _ = first_ranks(e.base[0])
    ue, uee, CC = e.U.protocol_earlier, e.U.protocol_earlier_eq, e.CC
    rD = [rank[x] for x in D]
    pairs = list(zip(D, rD))
    n_bad = 0
    n_true = 0
    n_prem = 0
    for v in vs:
        rv = rank[v]
        inr = CC(protocol_version=v).protocol_in_range
        above = sum(1 for r in rD if r > rv)
        for s, rs in pairs:
            if rs <= rv:
                n_true += above
                for t, rt in pairs:
                    try:
                        ok = inr(s, t) == (rv < rt)
                    except Exception:
                        ok = False
                    if not ok:
                        n_bad += 1
                        if n_bad <= MAX_PER_TASK:
                            report_inrange(ctx, e, rank, v, s, t)
            else:
                for t in D:
                    try:
                        ok = not inr(s, t)
                    except Exception:
                        ok = False
                    if not ok:
                        n_bad += 1
                        if n_bad <= MAX_PER_TASK:
                            report_inrange(ctx, e, rank, v, s, t)
        for pname, f in (('protocol_earlier', ue),
                         ('protocol_earlier_eq', uee)):
            for b in D:
                try:
                    if not f(v, b):
                        continue
                    n_prem += 1
                    for c in D:
                        if f(b, c) and not f(v, c):
                            n_bad += 1
                            if n_bad <= MAX_PER_TASK:
                                report_trans(ctx, e, pname, v, b, c)
                except Exception:
                    pass        # raising pairs are reported by the pair pass
    n = len(vs) * len(D) * len(D)
    ctx.count(3 * n)
    ctx.note_distinct(3 * n)
    ctx.outcome('in_range True', n_true)
    ctx.outcome('in_range False', n - n_true)
    ctx.cls('transitivity premises true (a,b)', n_prem)
    ctx.extra['triple_violations_total'] = n_bad


def report_inrange(ctx, e, rank, v, s, t):
    text = inrange_failure(e, rank, v, s, t)
    if text:
        ctx.violation('in_range v=%s start=%s end=%s' % (fmt(v), fmt(s),
                                                         fmt(t)),
                      text, {'op': 'inrange', 'v': v, 'start': s, 'end': t})


def report_trans(ctx, e, pname, a, b, c):
    f = getattr(e.U, pname)
    try:
        got = (f(a, b), f(b, c), f(a, c))
    except Exception as x:
        got = 'raised %r' % (x,)
    if isinstance(got, str) or (got[0] and got[1] and not got[2]):
        ctx.violation('transitive %s %s %s %s' % (pname, fmt(a), fmt(b),
                                                  fmt(c)),
                      'utility.%s: (%s,%s), (%s,%s), (%s,%s) -> %r; the first '
                      'two hold, so must the third'
                      % (pname, fmt(a), fmt(b), fmt(b), fmt(c), fmt(a), fmt(c),
                         got),
                      {'op': 'trans', 'a': a, 'b': b, 'c': c, 'pred': pname})


def part_a(ctx, e):
    records = e.base[0]
    K, rank, howmany = first_ranks(records)
    n_pre = sum(1 for p in K if p & PRE)
    n_dup = sum(1 for p in K if howmany[p] > 1)
    far = 0
    for p in K:          # a number carried by records that are not adjacent
        idx = [i for i in range(len(records)) if records[i][1] == p]
        if idx[-1] - idx[0] + 1 != len(idx):
            far += 1
    ctx.cls('known protocol numbers', len(K))
    ctx.cls('PRE-flagged numbers', n_pre)
    ctx.cls('numbers carried by several records', n_dup)
    ctx.cls('numbers whose records are not adjacent in the list', far)
    if not n_pre or not n_dup:
        raise ToolError('vacuous: the record list has %d PRE-flagged and %d '
                        'duplicated numbers' % (n_pre, n_dup))
    ctx.extra['known_numbers'] = len(K)
    ctx.extra['records'] = len(records)

    base_fails = check_base_tables(ctx, e)
    ctx.count()
    check_records_order(ctx, records)
    ctx.count()
    for p in K:
        if p & PRE:
            ctx.count()
            ctx.note_distinct(1)
            check_placement(ctx, e, records, rank, p)
            lo, up = enclosing(records, rank, p)
            ctx.cls('PRE placement: enclosed on both sides'
                    if lo is not None and up is not None
                    else 'PRE placement: one side only')
    mats = pairs_all(ctx, e, K, rank)
    axioms(ctx, K, *mats)
    # vacuity: pairs on which numeric order and publication order disagree
    ctx.cls('pairs where numeric order differs from publication order',
            sum(1 for a in K for b in K
                if (a < b) != (rank[a] < rank[b])))
    ctx.cls('pairs PRE-flagged vs ordinary',
            2 * n_pre * (len(K) - n_pre))
    ctx.cls('pairs equal', len(K))

    D = triple_domain(K, howmany, ctx.tier, ctx.seed)
    per = max(1, len(D) // (JOBS * 6))
    tasks = [(D[i:i + per], D) for i in range(0, len(D), per)]
    ctx.pmap(w_triples, tasks)
    ctx.extra['triples_domain_size'] = len(D)
    ctx.extra['triples_by_real_calls'] = (
        '%d^3 = %d triples: protocol_in_range on a real ConnectionContext, '
        'and transitivity of utility.protocol_earlier and '
        'protocol_earlier_eq by real calls (inner call skipped when the '
        'premise earlier(a,b) is false)' % (len(D), len(D) ** 3))
    ctx.sample({'pair': [fmt(K[-1]), fmt(PRE | 60)],
                'rank': [rank[K[-1]], rank.get(PRE | 60)],
                'observed': list(pair_observe(e, K[-1], PRE | 60))
                if (PRE | 60) in rank else None})
    return base_fails


# -- part (b): histories ---------------------------------------------------------

class Plan(object):
    """The action alphabet, fixed from the base records and the seed."""

    def __init__(self, e, seed):
        base = e.base[0]
        self.base_len = len(base)
        self.base_ids = set(r[0] for r in base)
        K, rank, _ = first_ranks(base)
        self.base_K = K
        sup_numbers = set(r[1] for r in base if r[2])
        # number re-used by 'existing number' appends: the earliest
        # unsupported PRE-flagged one (else the middle record's)
        self.dup = base[len(base) // 2][1]
        for r in base:
            if r[1] & PRE and r[1] not in sup_numbers:
                self.dup = r[1]
                break
        self.seed_dup = base[random.Random(seed).randrange(len(base))][1]
        # number used for the direct SUPPORTED_MINECRAFT_VERSIONS entry: the
        # last known number no supported record carries (else the last)
        self.edit_proto = K[-1]
        for r in reversed(base):
            if r[1] not in sup_numbers:
                self.edit_proto = r[1]
                break
        # mid-list anchors: the latest gap of >= 8 free numbers between two
        # neighbouring ordinary records / two neighbouring PRE records
        self.anchor = {}
        for kind, flag in (('ord', 0), ('pre', PRE)):
            for i in range(len(base) - 1, 0, -1):
                p, q = base[i - 1][1], base[i][1]
                if p & PRE == flag and q & PRE == flag and q - p >= 8:
                    self.anchor[kind] = (base[i][0], p, q)
                    break
            else:
                raise ToolError('no mid-list gap for %s inserts' % kind)
        acts = []
        for num in ('ord', 'dup', 'pre'):
            for sup in ('sup', 'unsup'):
                for shape in ('rel', 'snap'):
                    acts.append('app:%s:%s:%s' % (num, sup, shape))
        acts += ['app:seeddup:sup:snap', 'ins:ord', 'ins:pre']
        self.inits = ['initT', 'initF', 'edit+init']
        self.actions = acts + self.inits
        pre_base = [p for p in K if p & PRE]
        ords = [p for p in K if not p & PRE]
        b = set([K[0], K[1], K[-1], K[-2], max(ords), max(pre_base),
                 min(pre_base), self.dup, self.seed_dup, self.edit_proto])
        k0 = K.index(min(pre_base))
        b.update(K[max(0, k0 - 1):k0 + 1])
        for kind in ('ord', 'pre'):
            b.update(self.anchor[kind][1:])
        self.boundary = [p for p in K if p in b]


_PLAN = {}


def plan(seed):
    if seed not in _PLAN:
        _PLAN[seed] = Plan(env(), seed)
    return _PLAN[seed]


def new_id(P, records, shape):
    k = len(records) - P.base_len + 1
    if shape == 'rel':
        s = '9.9' if k == 1 else '9.9.%d' % k
    else:
        s = '99w%02da' % k
    if s in P.base_ids or any(r[0] == s for r in records):
        raise ToolError('generated id %r is not new' % s)
    return s


def mutate(e, P, name):
    """The edit part of an action, done the way a library user would."""
    M = e.M
    records = M.KNOWN_MINECRAFT_VERSION_RECORDS
    parts = name.split(':')
    if parts[0] == 'app':
        num, sup, shape = parts[1:]
        if num == 'ord':
            p = max(r[1] for r in records if not r[1] & PRE) + 1
        elif num == 'pre':
            p = max(r[1] for r in records if r[1] & PRE) + 1
        elif num == 'dup':
            p = P.dup
        else:
            p = P.seed_dup
        records.append(e.Version(new_id(P, records, shape), p, sup == 'sup'))
    elif parts[0] == 'ins':
        aid, lo, hi = P.anchor[parts[1]]
        used = sum(1 for r in records if lo < r[1] < hi)
        p = lo + 1 + used
        if p >= hi:
            raise ToolError('insert gap exhausted')
        at = [i for i, r in enumerate(records) if r[0] == aid][0]
        records.insert(at, e.Version(new_id(P, records, 'rel'), p, True))
    elif name == 'edit+init':
        S = M.SUPPORTED_MINECRAFT_VERSIONS
        k = 1 + sum(1 for i in S if i.startswith('9.8.'))
        S['9.8.%d' % k] = P.edit_proto
    elif name not in ('initT', 'initF'):
        raise ToolError('unknown action %r' % name)


def call_init(e, name):
    if name == 'initT':
        e.M.initglobals(True)
    elif name == 'initF':
        e.M.initglobals(False)
    else:
        e.M.initglobals()


def predicates_after(e, P, records):
    """Pair predicates (and in_range) on the extended list."""
    K, rank, _ = first_ranks_fast(records)
    base = set(P.base_K)
    new = [p for p in K if p not in base]
    added_ids = [r for r in records if r[0] not in P.base_ids]
    touched = dedup(new + [r[1] for r in added_ids])
    nums = dedup(touched + P.boundary)
    out = []
    CC, ue, uee = e.CC, e.U.protocol_earlier, e.U.protocol_earlier_eq
    for a in nums:
        c = CC(protocol_version=a)
        f1, f2, f3, f4 = (c.protocol_earlier, c.protocol_earlier_eq,
                          c.protocol_later, c.protocol_later_eq)
        ra = rank[a]
        for b in nums:
            rb = rank[b]
            try:
                got = (f1(b), f2(b), f3(b), f4(b), ue(a, b), uee(a, b))
            except Exception:
                got = None
            if got != (ra < rb, ra <= rb, ra > rb, ra >= rb, ra < rb,
                       ra <= rb):
                out += [('pair %s %s %s' % (fmt(a), fmt(b), lab), txt)
                        for lab, txt in pair_failures(e, rank, a, b)]
                if len(out) > 6:
                    return out, len(nums)
    small = dedup(touched + P.boundary[-3:])
    for v in small:
        inr = CC(protocol_version=v).protocol_in_range
        rv = rank[v]
        for s in small:
            lo = rank[s] <= rv
            for t in small:
                try:
                    ok = inr(s, t) == (lo and rv < rank[t])
                except Exception:
                    ok = False
                if not ok:
                    txt = inrange_failure(e, rank, v, s, t)
                    if txt:
                        out.append(('in_range %s %s %s'
                                    % (fmt(v), fmt(s), fmt(t)), txt))
                    if len(out) > 6:
                        return out, len(nums)
    return out, len(nums)


def first_ranks_fast(records):
    """Same result as first_ranks (cross-checked in run), dict membership."""
    order, rank, howmany = [], {}, {}
    for i, r in enumerate(records):
        p = r[1]
        if p not in rank:
            rank[p] = i
            order.append(p)
            howmany[p] = 0
        howmany[p] += 1
    return order, rank, howmany


def judge_init(e, P, name, before, twice=True):
    """Failures [(label, text)] of one re-initialisation just performed;
    leaves the module in the state reached by the FIRST call."""
    fails = []
    snap = e.snapshot()
    if snap[0] != before[0]:
        fails.append(('records changed', 'initglobals changed '
                      'KNOWN_MINECRAFT_VERSION_RECORDS (%d records before, %d '
                      'after)' % (len(before[0]), len(snap[0]))))
    if name == 'initT':
        exp = project(snap[0])
        if exp is None:
            raise ToolError('harness produced an id with two meanings')
        fails += table_failures(snap, exp, TABLES)
    else:
        src = before[T_IDX['SUPPORTED_MINECRAFT_VERSIONS']]
        if snap[T_IDX['SUPPORTED_MINECRAFT_VERSIONS']] != src:
            fails.append(('source changed', 'initglobals(False) changed its '
                          'source SUPPORTED_MINECRAFT_VERSIONS: %s'
                          % diff_text('SUPPORTED_MINECRAFT_VERSIONS',
                                      snap[T_IDX['SUPPORTED_MINECRAFT_VERSIONS'
                                                 ]], src)))
        exp = project_supported(list(src))
        fails += table_failures(snap, exp, sorted(exp))
    fails += e.identity_failures()
    n_nums = 0
    if name == 'initT' and not fails:
        pf, n_nums = predicates_after(e, P, list(snap[0]))
        fails += pf
    # idempotence: the same call once more changes nothing
    if not twice:
        return fails, snap, n_nums
    try:
        call_init(e, 'initF' if name == 'edit+init' else name)
        again = e.snapshot()
    except Exception as x:
        again = None
        fails.append(('second call raises', 'calling initglobals a second '
                      'time raised %s(%s)' % (type(x).__name__, x)))
    if again is not None and again != snap:
        which = [n for n in TABLES if again[T_IDX[n]] != snap[T_IDX[n]]]
        if again[0] != snap[0]:
            which.insert(0, 'KNOWN_MINECRAFT_VERSION_RECORDS')
        fails.append(('not idempotent', 'a second identical initglobals call '
                      'changed %s' % ', '.join(which)))
    if again != snap:
        e.restore(snap)
    return fails, snap, n_nums


def step(ctx, e, P, hist, name, judge=True):
    """Apply one action on the live module.  -> (violated, snapshot|None)"""
    mutate(e, P, name)
    if name not in P.inits:
        return False, None
    if not judge:
        call_init(e, name)
        return False, None
    before = e.snapshot()
    full = tuple(hist) + (name,)
    case = {'op': 'history', 'actions': list(full), 'seed_dup': P.seed_dup}
    try:
        call_init(e, name)
    except Exception as x:
        ctx.violation('history %s :: raises' % '/'.join(full),
                      'after the run-time edits %s, initglobals raised %s(%s)'
                      % (list(hist), type(x).__name__, x), case)
        ctx.outcome('%s raises' % name)
        return True, None
    twice = len(full) <= TWICE_UP_TO
    fails, snap, n_nums = judge_init(e, P, name, before, twice)
    if twice:
        ctx.cls('re-initialisations repeated for idempotence')
    ctx.count()
    ctx.traces += 1
    if any(a not in ('initT', 'initF') for a in full[:-1]) or \
            name == 'edit+init':
        ctx.note_distinct(1)
    if fails:
        ctx.outcome('%s violates' % name)
        ctx.violation(
            'history %s :: %s' % ('/'.join(full), fails[0][0]),
            'history %s: after the last re-initialisation: %s'
            % (' -> '.join(full), ' || '.join(t for _, t in fails[:4])),
            case)
        return True, snap
    ctx.outcome('%s ok' % name)
    if name == 'initT':
        ctx.cls('initT judged with %d extension records'
                % (len(snap[0]) - P.base_len))
        if len(snap[T_IDX['SUPPORTED_MINECRAFT_VERSIONS']]) != \
                len(before[T_IDX['SUPPORTED_MINECRAFT_VERSIONS']]):
            ctx.cls('initT changed the number of supported ids')
        if n_nums:
            ctx.cls('initT: predicate pairs re-checked', n_nums * n_nums)
    else:
        stale = project(snap[0])       # cached per record list
        if stale and list(snap[T_IDX['SUPPORTED_MINECRAFT_VERSIONS']]) != \
                stale['SUPPORTED_MINECRAFT_VERSIONS']:
            ctx.cls('%s with SUPPORTED_MINECRAFT_VERSIONS differing from the '
                    'records (user edit or stale)' % name)
        else:
            ctx.cls('%s with SUPPORTED_MINECRAFT_VERSIONS in step with the '
                    'records' % name)
    return False, snap


def w_expand(ctx, task):
    """Expand a sorted run of histories (neighbours share prefixes, whose
    states are kept on a stack instead of being replayed again)."""
    hists, last = task
    e = env()
    P = plan(ctx.seed)
    succ = []
    stack = []                     # (action, snapshot after it)
    try:
        for hist in hists:
            k = 0
            while k < len(stack) and k < len(hist) and \
                    stack[k][0] == hist[k]:
                k += 1
            del stack[k:]
            e.restore(stack[-1][1] if stack else e.base)
            for a in hist[k:]:
                step(ctx, e, P, (), a, judge=False)
                stack.append((a, e.snapshot()))
            S = stack[-1][1] if stack else e.base
            for a in (P.inits if last else P.actions):
                ctx.transitions += 1
                bad, snap = step(ctx, e, P, hist, a)
                if snap is None:
                    snap = e.snapshot()
                c = canon(snap)
                ctx.state(c)
                if not bad and not last:
                    succ.append((c, hist + (a,)))
                e.restore(S)
    finally:
        e.restore(e.base)
    ctx.extra['succ'] = succ


def part_b(ctx, e):
    P = plan(ctx.seed)
    depth = 5 if ctx.thorough else 3
    rnd = random.Random(ctx.seed)
    base = e.base
    seen = set([canon(base)])
    ctx.state(canon(base))
    frontier = [()]
    done = 0
    per_level = []
    for level in range(1, depth + 1):
        last = level == depth
        per = max(1, min(64, len(frontier) // (JOBS * 4)))
        tasks = [(frontier[i:i + per], last)
                 for i in range(0, len(frontier), per)]
        rnd.shuffle(tasks)
        before_v = len(ctx.violations)
        ctx.extra.pop('succ', None)
        ctx.pmap(w_expand, tasks)
        succ = ctx.extra.pop('succ', None) or []
        done = level
        best = {}
        for c, hist in succ:
            if c not in seen and (c not in best or hist < best[c]):
                best[c] = hist
        seen.update(best)
        per_level.append({'level': level, 'expanded': len(frontier),
                          'new_states': len(best) if not last else None})
        frontier = sorted(best.values())
        if len(ctx.violations) > before_v:
            ctx.extra['histories_stopped_after_level'] = level
            break
        if not frontier:
            break
    ctx.extra['history_depth_completed'] = done
    ctx.extra['history_levels'] = per_level
    ctx.extra['history_alphabet'] = list(P.actions)
    ctx.extra['history_anchors'] = {
        'insert ord before': P.anchor['ord'][0],
        'insert pre before': P.anchor['pre'][0],
        'existing number': fmt(P.dup), 'seed-chosen number': fmt(P.seed_dup),
        'number for the SUPPORTED_MINECRAFT_VERSIONS entry':
            fmt(P.edit_proto)}
    ctx.sample({'history': ['ins:ord', 'app:pre:sup:rel', 'initT'],
                'meaning': 'insert supported release-shaped record with a '
                           'new ordinary number before %r, append a '
                           'supported PRE-flagged release, rebuild from the '
                           'records' % P.anchor['ord'][0]})


# -- entry points -------------------------------------------------------------

def run(ctx):
    e = env()
    try:
        a, b, c = first_ranks(e.base[0])
        if (a, b, c) != first_ranks_fast(e.base[0]):
            raise ToolError('first_ranks_fast disagrees with first_ranks')
        for s, want in (('1.16.5', True), ('1.7', True), ('1', False),
                        ('1.', False), ('.1', False), ('1.16-pre1', False),
                        ('20w45a', False), ('1..2', False), ('1.2\n', False),
                        ('1.16.4-rc1', False), ('10.0.0.1', True)):
            if is_release(s) != want:
                raise ToolError('is_release(%r) selftest' % s)
        base_fails = part_a(ctx, e)
        e.restore(e.base)
        if base_fails:
            ctx.extra['histories_skipped'] = ('the tables left by import are '
                                              'already wrong')
        else:
            part_b(ctx, e)
    finally:
        e.restore(e.base)
    ctx.extra.pop('succ', None)


def replay(ctx, case):
    e = env()
    try:
        records = e.base[0]
        K, rank, _ = first_ranks(records)
        op = case['op']
        ctx.count()
        if op == 'base-tables':
            check_base_tables(ctx, e)
        elif op == 'records-order':
            check_records_order(ctx, records)
        elif op == 'placement':
            if case['protocol'] in rank:
                check_placement(ctx, e, records, rank, case['protocol'])
        elif op == 'pair':
            a, b = case['a'], case['b']
            if a in rank and b in rank:
                n = check_pair(ctx, e, rank, a, b)
                if not n:
                    # axiom-type failures: recompute on the two pairs
                    ab, ba = pair_observe(e, a, b), pair_observe(e, b, a)
                    eq = a == b
                    ok = (not any(isinstance(g, str) for g in ab + ba)
                          and bool(ab[2]) == bool(ba[0])
                          and not (ab[0] and ba[0])
                          and (eq or ab[0] or ba[0]) and not (eq and ab[0])
                          and bool(ab[1]) == bool(ab[0] or eq)
                          and bool(ab[3]) == bool(ab[2] or eq))
                    if not ok:
                        ctx.violation('axiom pair %s %s' % (fmt(a), fmt(b)),
                                      'order axioms fail on (%s, %s): %r / %r'
                                      % (fmt(a), fmt(b), ab, ba), case)
        elif op == 'inrange':
            if all(case[k] in rank for k in ('v', 'start', 'end')):
                report_inrange(ctx, e, rank, case['v'], case['start'],
                               case['end'])
        elif op == 'trans':
            if all(case[k] in rank for k in 'abc'):
                report_trans(ctx, e, case['pred'], case['a'], case['b'],
                             case['c'])
        elif op == 'history':
            P = plan(ctx.seed)
            if 'seed_dup' in case:       # recorded under another seed
                P.seed_dup = case['seed_dup']
            e.restore(e.base)
            hist = ()
            for a in case['actions']:
                ctx.transitions += 1
                step(ctx, e, P, hist, a)
                hist += (a,)
        else:
            raise ToolError('unknown replay op %r' % op)
    finally:
        e.restore(e.base)
