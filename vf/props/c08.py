"""C08 - protocol versions are totally ordered by publication; the derived
tables are exactly the projections of the version records.

Part (a), configurations: every ordered pair (and triple) of the known
protocol numbers is put through the real predicates and compared with a rank
recomputed here from KNOWN_MINECRAFT_VERSION_RECORDS by plain loops.

Part (b), histories: explicit-state breadth-first search over run-time edits
of the records / of SUPPORTED_MINECRAFT_VERSIONS followed by initglobals, on
the REAL module objects, which are snapshotted and restored in place.

Nothing here imports pyCraft at module level and the oracle shares no code
with it (own PRE constant, own release-id matcher, own projections).
"""
import random

from vf.runner import use_repo, ToolError, JOBS
from vf import explore, interleave

LEVEL = 'model_checking'
RULE = ('(a) All ordered pairs of the known protocol numbers (369 on the '
        'unchanged tree): six real calls per pair (ConnectionContext '
        'earlier/earlier_eq/later/later_eq, utility.protocol_earlier/'
        '_earlier_eq) against rank = index of the first record carrying the '
        'number, on a fresh context per left operand AND on one context that '
        'is never replaced and takes every number in turn by assignment to '
        'protocol_version; the axioms (irreflexive, antisymmetric, total, '
        'converse, eq = strict-or-equal, transitive over all triples) are '
        'checked a '
        'second time on the matrix of observed results without the rank; '
        'ordinary numbers must be numerically ordered along the record list, '
        'PRE-flagged ones among themselves, each PRE-flagged number strictly '
        'between the ordinary numbers that enclose it in the list.  Triples '
        '(v,start,end) by REAL calls: protocol_in_range == rank(start) <= '
        'rank(v) < rank(end), and transitivity of protocol_earlier and '
        'protocol_earlier_eq; quick = all triples over the versions within '
        '+-2 ranks of a PRE-flagged or duplicated-protocol version plus 8 '
        'seed-chosen versions, thorough = all triples over all known '
        'numbers.  (b) Breadth-first search over histories of <= 3 (quick) / '
        '<= 5 (thorough) actions from {append a record (number: new ordinary '
        '> all | existing | new PRE-flagged; supported or not; id shaped '
        'like a release or like a snapshot), append a record with the number '
        'of a seed-chosen record, insert a supported release-shaped record '
        'mid-list at two fixed anchors; list an existing id again at the end '
        '(a supported release S: same values | supported flag flipped | a '
        'new number; an unsupported pre-release U: flag flipped | a new '
        'number), replace the record of S / of U in place by one with the '
        'flag flipped, remove the last record and append a new one (same '
        'record count); a record whose NUMBER is out of numeric order for '
        'its position: a new ordinary number larger than all, inserted '
        'between two smaller ordinary ones / between a PRE-flagged and a '
        'smaller ordinary one; a free smaller ordinary number appended after '
        'the larger ones; a new PRE-flagged number larger than all inserted '
        'between two smaller PRE-flagged ones; a free smaller PRE-flagged '
        'number appended at the end; initglobals(True), initglobals(False), '
        'add an entry to SUPPORTED_MINECRAFT_VERSIONS then initglobals()}.  '
        'EVERY edit of the records exists in two forms: in place, on the '
        'list object that minecraft.KNOWN_MINECRAFT_VERSION_RECORDS is at '
        'that moment, and "@new": on a copy of it that is then ASSIGNED to '
        'the module attribute (records = records + [...], a sorted or '
        'filtered copy); histories mix the forms freely (assign, then edit '
        'the new list in place; edit in place, then assign; assign twice).  '
        'The out-of-order records and the "@new" forms occur anywhere in '
        'histories of <= 3 actions (thorough: among the first three of <= 4 '
        'actions: a state reached with them in three actions is only '
        'rebuilt by initglobals(True) and judged without the long-lived '
        'contexts); thorough: histories of 5 actions are those whose '
        'first four are appends / inserts / re-initialisations in place (4: '
        'the alphabet without out-of-order records and "@new" forms); '
        'states deduplicated on (records, contents of the seven derived '
        'tables, and - once the attribute is no longer the list object of '
        'the import - what that object holds); the list object of the '
        'import is put back as the attribute, with the unextended records, '
        'at the end of every worker task and replay; every re-initialisation is judged, and repeated once to '
        'see that nothing changes when it ends a history of <= 4 actions '
        '(<= 2 actions when it contains an out-of-order record or an "@new" '
        'form; longer ones: only through histories ending init, init, which '
        'are judged against the projection); a history is judged at '
        'its last step, so the last level only applies the three '
        're-initialising actions).  Judged after initglobals(True): the '
        'seven tables against the literal projection of the records (every '
        'record counts: an id listed again as supported IS supported, from '
        'the position of its first supported listing; first occurrence of a '
        'repeated entry kept); then, on the touched and boundary numbers '
        'and, for every touched number, the number right before and right '
        'after it in the rebuilt list and the nearest number of its own kind '
        '(ordinary / PRE-flagged) on either side, '
        'the six pair predicates on fresh contexts and minecraft.utility '
        'against the POSITION in the rebuilt list (never the number), and '
        'by real calls all triples (v, start, end) that involve a touched '
        'number over the touched numbers, those neighbours and the last '
        'three boundary numbers: protocol_in_range on a fresh context, and '
        '(v touched) transitivity of utility.protocol_earlier / _earlier_eq: '
        '(v,start), (start,end) => (v,end); and the same five ConnectionContext predicates on LONG-LIVED contexts: for '
        'every intermediate state k of the history (start, after each '
        'action) one generation of contexts created and used (all five '
        'predicates once) in state k, one generation created at the start '
        'and used in every state, one created at the start for another '
        'version, used, and re-targeted by assignment after the rebuild; '
        'each must answer as the rebuilt list says.  '
        'The search stops at the first level that contains a violation; a '
        'failing history is executed once more alone by real calls from a '
        'fresh rebuild, and reported as such (or, if it only fails after '
        'the histories expanded before it in the same worker, together '
        'with them).  A history is non-trivial when it contains an '
        'edit before its final re-initialisation; histories are distinct by '
        'construction.'
        '  (c) Schedules: every pair (55) of ten comparison calls (utility.'
        'protocol_earlier/_earlier_eq, the four context predicates, '
        'protocol_in_range; operands 47, 107, 340, 751, 754, 755, 757, PRE|1) '
        'made by two threads, every source line of minecraft/utility.py and '
        'ConnectionContext a scheduling point, all schedules with <= 2 '
        '(thorough 3) preemptions: each thread must get the answer the '
        'record order gives, also afterwards.')
ASSUMPTIONS = [
    'the ids of NEW run-time records are new; an existing id is listed '
    'again only by the re-listing actions',
    'the order of a run-time extension is the position of the record in '
    'the list, whatever its number (the statement: the order "coincides '
    'with their chronological position in the version list"; Mojang did '
    'publish ordinary numbers out of numeric order, e.g. 801 between 751 '
    'and 752); the numeric-order rule of part (a) is a property of the '
    'SHIPPED list only',
    'assigning a new list to minecraft.KNOWN_MINECRAFT_VERSION_RECORDS is a '
    'way of extending the records at run time (initglobals is documented to '
    'use "KNOWN_MINECRAFT_VERSION_RECORDS" as the source, and reads the '
    'module global); assigning new objects to the seven DERIVED tables is '
    'not (they are documented to be updated by reference)',
    'a state whose record list was assigned is re-created by putting the '
    'recorded contents into the list object of the import and assigning a '
    'fresh copy of the recorded records to the attribute; list objects that '
    'were the attribute in between (assigned twice) are not kept',
    'an id listed with two different protocol numbers: a names map can hold '
    'only one of them and the statement does not say which, nor whether the '
    'numbers lists follow the records or the map in that case.  Judged '
    'then (relaxed rule): the id is in the map at the position of its '
    'first (supported) listing with ONE of the listed numbers; '
    'KNOWN/SUPPORTED/RELEASE_PROTOCOL_VERSIONS equal the projection of the '
    'records or the projection of the observed names map they are '
    'documented to follow; PROTOCOL_VERSION_INDICES enumerates the observed '
    'KNOWN_PROTOCOL_VERSIONS, RELEASE_MINECRAFT_VERSIONS filters the '
    'observed SUPPORTED_MINECRAFT_VERSIONS, and the predicates are judged '
    'against the observed KNOWN_PROTOCOL_VERSIONS.  (On the unchanged tree '
    'the maps keep the LAST listed number, KNOWN_PROTOCOL_VERSIONS keeps '
    'every listed number, SUPPORTED_PROTOCOL_VERSIONS follows the map.)  '
    'Listings that differ only in the supported flag are NOT open: the '
    'supported tables are the projection of the records flagged supported',
    'after initglobals(False) only SUPPORTED_PROTOCOL_VERSIONS, '
    'RELEASE_MINECRAFT_VERSIONS and RELEASE_PROTOCOL_VERSIONS are judged '
    '(against the current SUPPORTED_MINECRAFT_VERSIONS, which must be left '
    'as it was), as its docstring says',
    'quick tier: transitivity over ALL triples is evaluated on the matrix of '
    'pair results observed from the real predicates (predicates are pure '
    'functions of the index table); real-call triples cover the stated '
    'subset; the thorough tier makes the real calls for all triples',
    'the module state that matters to initglobals is the record list and '
    'the seven containers (these are what is snapshotted, restored in place '
    'and used, through a 64-bit value hash, to identify a state); what else '
    'an implementation may remember between calls is brought to a defined '
    'value by one initglobals(True) on the unextended records at the start '
    'of every worker task and of every replay',
    'a long-lived ConnectionContext can only remember what it saw when it '
    'was created or used: an observer of an earlier state of a history is '
    'made by restoring that state in place, creating the context, calling '
    'its five predicates once, and going on',
]

PRE = 1 << 30
DICTS = ('KNOWN_MINECRAFT_VERSIONS', 'SUPPORTED_MINECRAFT_VERSIONS',
         'RELEASE_MINECRAFT_VERSIONS', 'PROTOCOL_VERSION_INDICES')
LISTS = ('KNOWN_PROTOCOL_VERSIONS', 'SUPPORTED_PROTOCOL_VERSIONS',
         'RELEASE_PROTOCOL_VERSIONS')
TABLES = ('KNOWN_MINECRAFT_VERSIONS', 'KNOWN_PROTOCOL_VERSIONS',
          'PROTOCOL_VERSION_INDICES', 'SUPPORTED_MINECRAFT_VERSIONS',
          'SUPPORTED_PROTOCOL_VERSIONS', 'RELEASE_MINECRAFT_VERSIONS',
          'RELEASE_PROTOCOL_VERSIONS')
T_IDX = dict((n, i + 1) for i, n in enumerate(TABLES))   # slot in a snapshot
STALE = len(TABLES) + 1   # slot: contents of the import's list object | None
NEW = '@new'              # suffix of an action: done on a copy, then assigned
UNORDERED = ('PROTOCOL_VERSION_INDICES',)   # a plain map: order is not judged
TWICE_UP_TO = 4           # explicit second initglobals call after histories <= 4
TWICE_R4_UP_TO = 2        # ... <= 2 when they contain a round-4 action
FULL_ALPHABET_UP_TO = 4   # longer histories: round-1 alphabet before the end
R4_UP_TO = 3              # round-4 actions: among the first 3 of a history
MAX_PER_TASK = 3          # violations recorded per triple task (all counted)


def fmt(p):
    if isinstance(p, int) and not isinstance(p, bool) and p & PRE:
        return 'PRE|%d' % (p ^ PRE)
    return repr(p)


# -- the real module objects ---------------------------------------------------

class Env(object):
    """Handles on the real objects + snapshot / in-place restore."""

    def __init__(self):
        M = use_repo()
        from minecraft import utility as U
        from minecraft.networking import connection as C
        self.M, self.U, self.C = M, U, C
        self.CC = C.ConnectionContext
        self.Version = M.Version
        self.records = M.KNOWN_MINECRAFT_VERSION_RECORDS
        self.objs = dict((n, getattr(M, n)) for n in TABLES)
        # objects other modules took by reference at import time
        self.holders = []
        for mod, mname in ((U, 'minecraft.utility'),
                           (C, 'minecraft.networking.connection')):
            for n in TABLES:
                if hasattr(mod, n):
                    self.holders.append((mod, mname, n, getattr(mod, n)))
        self.base = self.snapshot()

    def stale(self):
        """None while minecraft.KNOWN_MINECRAFT_VERSION_RECORDS is the list
        object created by the import; after the user assigned a new list to
        the attribute: what the list object of the import holds now."""
        if self.M.KNOWN_MINECRAFT_VERSION_RECORDS is self.records:
            return None
        return tuple(self.records)

    def snapshot(self):
        M = self.M
        out = [tuple(M.KNOWN_MINECRAFT_VERSION_RECORDS)]
        for n in TABLES:
            o = getattr(M, n)
            out.append(tuple(o.items()) if hasattr(o, 'items') else tuple(o))
        out.append(self.stale())
        return tuple(out)

    def restore_records(self, snap):
        """The record list of a snapshot; the list object of the import is
        always put back (as the attribute, or with its stale contents beside
        a NEW list object that is assigned to the attribute)."""
        if snap[STALE] is None:
            self.M.KNOWN_MINECRAFT_VERSION_RECORDS = self.records
            self.records[:] = snap[0]
        else:
            self.records[:] = snap[STALE]
            self.M.KNOWN_MINECRAFT_VERSION_RECORDS = list(snap[0])

    def restore(self, snap):
        M = self.M
        self.restore_records(snap)
        for n in TABLES:
            o = self.objs[n]
            setattr(M, n, o)
            if n in DICTS:
                o.clear()
                o.update(snap[T_IDX[n]])
            else:
                o[:] = snap[T_IDX[n]]
        for mod, _, n, o in self.holders:
            setattr(mod, n, o)

    def identity_failures(self):
        """Objects imported earlier by reference must be the live tables."""
        out = []
        M = self.M
        for n in TABLES:
            if getattr(M, n) is not self.objs[n]:
                out.append(('identity minecraft.%s' % n,
                            'minecraft.%s was rebound to a new object; code '
                            'that imported it by reference keeps the old one'
                            % n))
        for mod, mname, n, o in self.holders:
            if getattr(mod, n) is not getattr(M, n):
                out.append(('identity %s.%s' % (mname, n),
                            '%s.%s is no longer the same object as '
                            'minecraft.%s (update not seen by reference)'
                            % (mname, n, n)))
        return out


_ENV = None


def env():
    global _ENV
    if _ENV is None:
        _ENV = Env()
    return _ENV


def canon(snap):
    """64-bit identity of a state = (records, contents of the seven tables).
    Value-based tuple hash; ./check fixes PYTHONHASHSEED so it is stable."""
    return hash(snap) & 0xFFFFFFFFFFFFFFFF


# -- the independent oracle ----------------------------------------------------

_REL = {}


def is_release(s):
    """^\\d+(\\.\\d+)+$ for ASCII ids, written without re (memoised)."""
    r = _REL.get(s)
    if r is None:
        parts = s.split('.')
        r = len(parts) >= 2
        for p in parts:
            if p == '' or not p.isascii() or not p.isdigit():
                r = False
        _REL[s] = r
    return r


def first_ranks(records):
    """(numbers in order of first occurrence, number -> index of the first
    record carrying it, number -> how many records carry it); plain loops."""
    order, rank, howmany = [], {}, {}
    for i in range(len(records)):
        p = records[i][1]
        found = False
        for q in order:
            if q == p:
                found = True
                break
        if not found:
            order.append(p)
            rank[p] = i
            howmany[p] = 0
        howmany[p] += 1
    return order, rank, howmany


def dedup(seq):
    out, seen = [], set()
    for x in seq:
        if x not in seen:
            seen.add(x)
            out.append(x)
    return out


def project_supported(sup_items):
    """Tables that depend on SUPPORTED_MINECRAFT_VERSIONS (as item list)."""
    rel = [(i, p) for (i, p) in sup_items if is_release(i)]
    return {'SUPPORTED_PROTOCOL_VERSIONS': dedup(p for _, p in sup_items),
            'RELEASE_MINECRAFT_VERSIONS': rel,
            'RELEASE_PROTOCOL_VERSIONS': dedup(p for _, p in rel)}


_PROJ = [None, None]


def project(records):
    """Expected content of all seven tables, literally: every record counts,
    a table keeps the first occurrence of a repeated entry.  Two extra keys
    describe where a MAP cannot hold the literal projection because an id is
    listed with several numbers: 'amb_known' (among all records) and
    'amb_sup' (among the supported records), id -> listed numbers."""
    if _PROJ[0] is not None and _PROJ[0] == records:
        return _PROJ[1]
    _PROJ[0], _PROJ[1] = records, _project(records)
    return _PROJ[1]


def _project(records):
    ids, listed, listed_sup = [], {}, {}
    sup_ids = []
    for r in records:
        i, p, s = r[0], r[1], bool(r[2])
        if i not in listed:
            listed[i] = []
            ids.append(i)
        if p not in listed[i]:
            listed[i].append(p)
        if s:
            if i not in listed_sup:
                listed_sup[i] = []
                sup_ids.append(i)
            if p not in listed_sup[i]:
                listed_sup[i].append(p)
    known = [(i, listed[i][0]) for i in ids]
    sup = [(i, listed_sup[i][0]) for i in sup_ids]
    kp = dedup(r[1] for r in records)
    exp = {'KNOWN_MINECRAFT_VERSIONS': known, 'KNOWN_PROTOCOL_VERSIONS': kp,
           'PROTOCOL_VERSION_INDICES': [(p, k) for k, p in enumerate(kp)],
           'SUPPORTED_MINECRAFT_VERSIONS': sup,
           'SUPPORTED_PROTOCOL_VERSIONS': dedup(r[1] for r in records
                                                if r[2]),
           'RELEASE_MINECRAFT_VERSIONS': [(i, p) for (i, p) in sup
                                          if is_release(i)],
           'RELEASE_PROTOCOL_VERSIONS': dedup(r[1] for r in records
                                              if r[2] and is_release(r[0])),
           'amb_known': dict((i, v) for i, v in listed.items()
                             if len(v) > 1),
           'amb_sup': dict((i, v) for i, v in listed_sup.items()
                           if len(v) > 1)}
    return exp


def diff_text(name, got, exp):
    got, exp = list(got), list(exp)
    if name in UNORDERED:
        g, e = dict(got), dict(exp)
        miss = [k for k in e if k not in g]
        extra = [k for k in g if k not in e]
        wrong = [k for k in e if k in g and g[k] != e[k]]
        if len(g) != len(got):
            return 'repeated keys'
        return ('%d entries, expected %d; missing %s; unexpected %s; wrong '
                'value at %s' % (len(g), len(e),
                                 [fmt(k) for k in miss[:4]],
                                 [fmt(k) for k in extra[:4]],
                                 ['%s: got %r, expected %r'
                                  % (fmt(k), g[k], e[k]) for k in wrong[:4]]))
    n = 0
    while n < len(got) and n < len(exp) and got[n] == exp[n]:
        n += 1

    def show(x):
        if isinstance(x, tuple):
            return '(%r, %s)' % (x[0], fmt(x[1]))
        return fmt(x)
    return ('%d entries, expected %d; first difference at position %d: got '
            '%s, expected %s' % (len(got), len(exp), n,
                                 show(got[n]) if n < len(got) else 'nothing',
                                 show(exp[n]) if n < len(exp) else 'nothing'))


def table_failures(snap, exp, names):
    if exp.get('amb_known') or exp.get('amb_sup'):
        return relaxed_failures(snap, exp, names)
    out = []
    for n in names:
        got = snap[T_IDX[n]]
        if n in UNORDERED:
            ok = len(got) == len(exp[n]) and dict(got) == dict(exp[n])
        else:
            ok = list(got) == list(exp[n])
        if not ok:
            out.append(('table %s' % n, '%s is not the order-preserving '
                        'duplicate-free projection of its source: %s'
                        % (n, diff_text(n, got, exp[n]))))
    return out


def names_ok(got, want, amb):
    """A names map: the ids in order of first listing; the number is the
    listed one, any of the listed ones for an id in amb."""
    if len(got) != len(want):
        return False
    for (gi, gp), (wi, wp) in zip(got, want):
        if gi != wi:
            return False
        if gi in amb:
            if gp not in amb[gi]:
                return False
        elif gp != wp:
            return False
    return True


def relaxed_failures(snap, exp, names):
    """Some id is listed with several numbers.  A map holds one number per
    id and the statement does not say which: the id must be there, where its
    first (supported) listing is, with one of the listed numbers; a numbers
    list may be the projection of the records or of the observed names map
    it is documented to follow; the index map and the release names must
    follow the observed tables they are derived from."""
    ak, asup = exp['amb_known'], exp['amb_sup']
    why = (' (relaxed rule: %s listed with several numbers)'
           % ', '.join('%r: %s' % (i, [fmt(p) for p in v])
                       for i, v in sorted(list(ak.items())
                                          + list(asup.items()))[:3]))
    g = dict((n, list(snap[T_IDX[n]])) for n in TABLES)
    ok = {}
    ok['KNOWN_MINECRAFT_VERSIONS'] = names_ok(
        g['KNOWN_MINECRAFT_VERSIONS'], exp['KNOWN_MINECRAFT_VERSIONS'], ak)
    ok['SUPPORTED_MINECRAFT_VERSIONS'] = names_ok(
        g['SUPPORTED_MINECRAFT_VERSIONS'],
        exp['SUPPORTED_MINECRAFT_VERSIONS'], asup)
    alt = {
        'KNOWN_PROTOCOL_VERSIONS':
            dedup(p for _, p in g['KNOWN_MINECRAFT_VERSIONS']),
        'SUPPORTED_PROTOCOL_VERSIONS':
            dedup(p for _, p in g['SUPPORTED_MINECRAFT_VERSIONS']),
        'RELEASE_PROTOCOL_VERSIONS':
            dedup(p for _, p in g['RELEASE_MINECRAFT_VERSIONS'])}
    for n in alt:
        ok[n] = g[n] == exp[n] or g[n] == alt[n]
    want_idx = [(p, k) for k, p in enumerate(g['KNOWN_PROTOCOL_VERSIONS'])]
    ok['PROTOCOL_VERSION_INDICES'] = (
        len(g['PROTOCOL_VERSION_INDICES']) == len(want_idx) and
        dict(g['PROTOCOL_VERSION_INDICES']) == dict(want_idx))
    want_rel = [(i, p) for (i, p) in g['SUPPORTED_MINECRAFT_VERSIONS']
                if is_release(i)]
    ok['RELEASE_MINECRAFT_VERSIONS'] = \
        g['RELEASE_MINECRAFT_VERSIONS'] == want_rel
    ref = dict(exp)
    for n, amb in (('KNOWN_MINECRAFT_VERSIONS', ak),
                   ('SUPPORTED_MINECRAFT_VERSIONS', asup)):
        # (for the message: an admissible number is not a difference)
        ref[n] = [(wi, gp if k < len(g[n]) and g[n][k][0] == wi and wi in amb
                   and gp in amb[wi] else wp)
                  for k, ((wi, wp), (_, gp)) in enumerate(
                      zip(exp[n], g[n] + [(None, None)] * len(exp[n])))]
    ref['PROTOCOL_VERSION_INDICES'] = want_idx
    ref['RELEASE_MINECRAFT_VERSIONS'] = want_rel
    out = []
    for n in names:
        if not ok[n]:
            out.append(('table %s' % n, '%s is not the order-preserving '
                        'duplicate-free projection of its source: %s%s'
                        % (n, diff_text(n, g[n], ref[n]), why)))
    return out


def pair_expect(ra, rb):
    return (ra < rb, ra <= rb, ra > rb, ra >= rb, ra < rb, ra <= rb)


PAIR_NAMES = ('ConnectionContext.protocol_earlier',
              'ConnectionContext.protocol_earlier_eq',
              'ConnectionContext.protocol_later',
              'ConnectionContext.protocol_later_eq',
              'utility.protocol_earlier', 'utility.protocol_earlier_eq')


def pair_observe(e, a, b):
    """The six real results for (a, b); an exception replaces a value."""
    c = e.CC(protocol_version=a)
    fns = ((c.protocol_earlier, (b,)), (c.protocol_earlier_eq, (b,)),
           (c.protocol_later, (b,)), (c.protocol_later_eq, (b,)),
           (e.U.protocol_earlier, (a, b)), (e.U.protocol_earlier_eq, (a, b)))
    got = []
    for fn, args in fns:
        try:
            got.append(fn(*args))
        except Exception as x:
            got.append('raised %s(%s)' % (type(x).__name__, x))
    return tuple(got)


def pair_failures(e, rank, a, b, unit='record #'):
    got = pair_observe(e, a, b)
    exp = pair_expect(rank[a], rank[b])
    out = []
    for name, g, x in zip(PAIR_NAMES, got, exp):
        if isinstance(g, str) or bool(g) != x:
            if name.startswith('utility'):
                call = '%s(%s, %s)' % (name, fmt(a), fmt(b))
            else:
                call = ('ConnectionContext(protocol_version=%s).%s(%s)'
                        % (fmt(a), name.split('.')[1], fmt(b)))
            out.append(('%s' % name.split('.')[1] if not
                        name.startswith('utility') else name,
                        '%s = %r, expected %r: %s is %s%d and %s is '
                        '%s%d of the version list'
                        % (call, g, x, fmt(a), unit, rank[a], fmt(b), unit,
                           rank[b])))
    return out


def inrange_failure(e, rank, v, s, t):
    exp = rank[s] <= rank[v] < rank[t]
    try:
        got = e.CC(protocol_version=v).protocol_in_range(s, t)
    except Exception as x:
        got = 'raised %s(%s)' % (type(x).__name__, x)
    if isinstance(got, str) or bool(got) != exp:
        return ('ConnectionContext(protocol_version=%s).protocol_in_range(%s, '
                '%s) = %r, expected %r (records #%d, #%d, #%d)'
                % (fmt(v), fmt(s), fmt(t), got, exp, rank[v], rank[s],
                   rank[t]))
    return None


# -- part (a): configurations ---------------------------------------------------

def check_base_tables(ctx, e):
    """The tables as left by `import minecraft`."""
    snap = e.snapshot()
    exp = project(snap[0])
    if exp['amb_known']:
        ctx.cls('base records: an id listed with several numbers (relaxed '
                'rule)')
    fails = table_failures(snap, exp, TABLES) + e.identity_failures()
    for label, text in fails:
        ctx.violation('base %s' % label, 'after import: ' + text,
                      {'op': 'base-tables'})
    return fails


def check_records_order(ctx, records):
    """Numeric order of ordinary numbers / of PRE-flagged numbers along the
    list (equal neighbours allowed: several ids share a number)."""
    bad = 0
    last = {False: None, True: None}
    for i in range(len(records)):
        p = records[i][1]
        flagged = bool(p & PRE)
        prev = last[flagged]
        if prev is not None and p < prev[1]:
            bad += 1
            ctx.violation(
                'records-order %s after %s' % (fmt(p), fmt(prev[1])),
                'record #%d %r carries %s number %s although the earlier '
                'record #%d %r carries the larger %s: the list is not in '
                'order of publication, so the order derived from it is wrong'
                % (i, records[i][0],
                   'PRE-flagged' if flagged else 'ordinary', fmt(p),
                   prev[0], records[prev[0]][0], fmt(prev[1])),
                {'op': 'records-order'})
        if prev is None or p >= prev[1]:
            last[flagged] = (i, p)
    return bad


def enclosing(records, rank, p):
    """Ordinary numbers enclosing the first record that carries PRE number p:
    (last ordinary number before it, first larger ordinary number after)."""
    i = rank[p]
    lower = upper = None
    for j in range(i - 1, -1, -1):
        if not records[j][1] & PRE:
            lower = records[j][1]
            break
    for j in range(i + 1, len(records)):
        q = records[j][1]
        if not q & PRE and (lower is None or q > lower):
            upper = q
            break
    return lower, upper


def check_placement(ctx, e, records, rank, p):
    lower, upper = enclosing(records, rank, p)
    case = {'op': 'placement', 'protocol': p}
    n = 0
    for lo, hi in ((lower, p), (p, upper)):
        if lo is None or hi is None:
            continue
        got = pair_observe(e, lo, hi)
        if any(isinstance(g, str) for g in got) or \
                tuple(bool(g) for g in got) != pair_expect(0, 1):
            n += 1
            ctx.violation(
                'placement %s' % fmt(p),
                '%s was published after %s and before %s (its record #%d %r '
                'lies between theirs) but the predicates for (%s, %s) give '
                '%r, expected %r' % (fmt(p), fmt(lower), fmt(upper), rank[p],
                                     records[rank[p]][0], fmt(lo), fmt(hi),
                                     got, pair_expect(0, 1)), case)
    return n


def check_pair(ctx, e, rank, a, b):
    fails = pair_failures(e, rank, a, b)
    for label, text in fails:
        ctx.violation('pair %s %s %s' % (fmt(a), fmt(b), label), text,
                      {'op': 'pair', 'a': a, 'b': b})
    return len(fails)


def check_reused(ctx, e, rank, prev, a, b):
    """A context created for prev and used, then protocol_version = a."""
    c = e.CC(protocol_version=prev)
    exercise(c, prev)
    c.protocol_version = a
    want = pair_expect(rank[a], rank[b])[:4]
    got = []
    for pn in CTX_PREDS:
        try:
            got.append(bool(getattr(c, pn)(b)))
        except Exception as x:
            got.append('raised %s(%s)' % (type(x).__name__, x))
    if tuple(got) != want:
        ctx.violation(
            'reused-context %s %s' % (fmt(a), fmt(b)),
            'a ConnectionContext created for %s and used, then assigned '
            'protocol_version = %s: earlier/earlier_eq/later/later_eq(%s) = '
            '%r, expected %r (%s is record #%d, %s record #%d)'
            % (fmt(prev), fmt(a), fmt(b), got, list(want), fmt(a), rank[a],
               fmt(b), rank[b]),
            {'op': 'reuse', 'prev': prev, 'a': a, 'b': b})
        return 1
    return 0


def walk_reused(ctx, e, K, rank, a, b):
    """The same with the whole walk: one context created for the last known
    number, used, then assigned every known number in list order up to a
    (asked about every known number at each stop)."""
    c = e.CC(protocol_version=K[-1])
    exercise(c, K[-1])
    for v in K:
        c.protocol_version = v
        if v == a:
            break
        for w in K:
            try:
                c.protocol_earlier(w), c.protocol_earlier_eq(w)
                c.protocol_later(w), c.protocol_later_eq(w)
            except Exception:
                pass
    want = pair_expect(rank[a], rank[b])[:4]
    got = []
    for pn in CTX_PREDS:
        try:
            got.append(bool(getattr(c, pn)(b)))
        except Exception as x:
            got.append('raised %s(%s)' % (type(x).__name__, x))
    if tuple(got) != want:
        ctx.violation(
            'reused-context-walk %s %s' % (fmt(a), fmt(b)),
            'one ConnectionContext assigned every known protocol number in '
            'turn (and asked about all of them at each): at protocol_version '
            '= %s, earlier/earlier_eq/later/later_eq(%s) = %r, expected %r'
            % (fmt(a), fmt(b), got, list(want)),
            {'op': 'reuse-walk', 'a': a, 'b': b})


def pairs_all(ctx, e, K, rank):
    """All ordered pairs; returns the observed strict matrix as bit rows."""
    CC, ue, uee = e.CC, e.U.protocol_earlier, e.U.protocol_earlier_eq
    pos = dict((p, k) for k, p in enumerate(K))
    rows = [0] * len(K)           # bit k of rows[j]: earlier(K[j], K[k])
    rows_eq = [0] * len(K)
    rows_later = [0] * len(K)
    rows_later_eq = [0] * len(K)
    outcomes = {}
    # one more context that is never replaced: it takes every version in
    # turn by assignment to protocol_version (as Connection does with its
    # own context) and must answer like the fresh one
    walker = CC(protocol_version=K[-1])
    exercise(walker, K[-1])
    prev = K[-1]
    w1, w2, w3, w4 = (walker.protocol_earlier, walker.protocol_earlier_eq,
                      walker.protocol_later, walker.protocol_later_eq)
    n_reused_bad = 0
    for a in K:
        c = CC(protocol_version=a)
        f1, f2, f3, f4 = (c.protocol_earlier, c.protocol_earlier_eq,
                          c.protocol_later, c.protocol_later_eq)
        walker.protocol_version = a
        ra, ja = rank[a], pos[a]
        for b in K:
            rb = rank[b]
            try:
                got = (f1(b), f2(b), f3(b), f4(b), ue(a, b), uee(a, b))
            except Exception:
                got = None
            try:
                reused = (w1(b), w2(b), w3(b), w4(b))
            except Exception:
                reused = None
            if reused != (ra < rb, ra <= rb, ra > rb, ra >= rb):
                n_reused_bad += 1
                if n_reused_bad <= MAX_PER_TASK and \
                        not check_reused(ctx, e, rank, prev, a, b):
                    walk_reused(ctx, e, K, rank, a, b)
            if got != (ra < rb, ra <= rb, ra > rb, ra >= rb, ra < rb,
                       ra <= rb):
                check_pair(ctx, e, rank, a, b)
                got = pair_observe(e, a, b)
            bit = 1 << pos[b]
            if got[0] is True or got[0] == 1:
                rows[ja] |= bit
            if got[1] is True or got[1] == 1:
                rows_eq[ja] |= bit
            if got[2] is True or got[2] == 1:
                rows_later[ja] |= bit
            if got[3] is True or got[3] == 1:
                rows_later_eq[ja] |= bit
            outcomes[got[:4]] = outcomes.get(got[:4], 0) + 1
        prev = a
    n = len(K) * len(K)
    ctx.count(n)
    ctx.note_distinct(n)
    ctx.cls('pairs asked of one context re-targeted by assignment', n)
    for got, cnt in outcomes.items():
        ctx.outcome('pair earlier,earlier_eq,later,later_eq=%s'
                    % ','.join(str(g)[:12] for g in got), cnt)
    return pos, rows, rows_eq, rows_later, rows_later_eq


def axioms(ctx, K, pos, rows, rows_eq, rows_later, rows_later_eq):
    """The order axioms on the observed results alone (no rank)."""
    n = len(K)
    full = (1 << n) - 1

    def bad(key, text, case):
        ctx.violation('axiom ' + key, text, case)

    def lowest(bits):
        return K[(bits & -bits).bit_length() - 1]
    for j, a in enumerate(K):
        me = 1 << j
        if rows[j] & me:
            bad('irreflexive %s' % fmt(a), 'protocol_earlier(%s, %s) is true'
                % (fmt(a), fmt(a)), {'op': 'pair', 'a': a, 'b': a})
        # converse: later(a, b) == earlier(b, a), column j of rows
        col = 0
        for k in range(n):
            if rows[k] >> j & 1:
                col |= 1 << k
        if col != rows_later[j]:
            b = lowest(col ^ rows_later[j])
            bad('converse %s %s' % (fmt(a), fmt(b)),
                'protocol_later(%s, %s) differs from protocol_earlier(%s, %s)'
                % (fmt(a), fmt(b), fmt(b), fmt(a)),
                {'op': 'pair', 'a': a, 'b': b})
        if rows[j] & col:
            b = lowest(rows[j] & col)
            bad('antisymmetric %s %s' % (fmt(a), fmt(b)),
                'both protocol_earlier(%s, %s) and protocol_earlier(%s, %s)'
                % (fmt(a), fmt(b), fmt(b), fmt(a)),
                {'op': 'pair', 'a': a, 'b': b})
        if (rows[j] | col | me) != full:
            b = lowest(full ^ (rows[j] | col | me))
            bad('total %s %s' % (fmt(a), fmt(b)),
                'neither protocol_earlier(%s, %s) nor protocol_earlier(%s, '
                '%s) although the numbers differ' % (fmt(a), fmt(b), fmt(b),
                                                     fmt(a)),
                {'op': 'pair', 'a': a, 'b': b})
        if rows_eq[j] != (rows[j] | me):
            b = lowest(rows_eq[j] ^ (rows[j] | me))
            bad('earlier_eq %s %s' % (fmt(a), fmt(b)),
                'protocol_earlier_eq(%s, %s) is not (earlier or equal)'
                % (fmt(a), fmt(b)), {'op': 'pair', 'a': a, 'b': b})
        if rows_later_eq[j] != (rows_later[j] | me):
            b = lowest(rows_later_eq[j] ^ (rows_later[j] | me))
            bad('later_eq %s %s' % (fmt(a), fmt(b)),
                'protocol_later_eq(%s, %s) is not (later or equal)'
                % (fmt(a), fmt(b)), {'op': 'pair', 'a': a, 'b': b})
        # transitivity: a < b  =>  everything after b is after a
        rest = rows[j]
        while rest:
            low = rest & -rest
            k = low.bit_length() - 1
            rest ^= low
            leak = rows[k] & ~rows[j]
            if leak:
                c = lowest(leak)
                bad('transitive %s %s %s' % (fmt(a), fmt(K[k]), fmt(c)),
                    '%s earlier than %s and %s earlier than %s, but %s is '
                    'not earlier than %s' % (fmt(a), fmt(K[k]), fmt(K[k]),
                                             fmt(c), fmt(a), fmt(c)),
                    {'op': 'trans', 'a': a, 'b': K[k], 'c': c,
                     'pred': 'protocol_earlier'})
    ctx.cls('axioms checked on the observed pair matrix, triples',
            n * n * n)


def triple_domain(K, howmany, tier, seed):
    if tier == 'thorough':
        return list(K)
    keep = set()
    for k, p in enumerate(K):
        if p & PRE or howmany[p] > 1:
            for d in (-2, -1, 0, 1, 2):
                if 0 <= k + d < len(K):
                    keep.add(k + d)
    rnd = random.Random(seed)
    for _ in range(8):
        keep.add(rnd.randrange(len(K)))
    return [K[k] for k in sorted(keep)]


def w_triples(ctx, task):
    """Real calls for every (v, s, t), v from this task, s and t from D."""
    vs, D = task
    e = env()
    e.restore(e.base)
    K, rank, _ = first_ranks(e.base[0])
    ue, uee, CC = e.U.protocol_earlier, e.U.protocol_earlier_eq, e.CC
    rD = [rank[x] for x in D]
    pairs = list(zip(D, rD))
    n_bad = 0
    n_true = 0
    n_prem = 0
    for v in vs:
        rv = rank[v]
        inr = CC(protocol_version=v).protocol_in_range
        above = sum(1 for r in rD if r > rv)
        for s, rs in pairs:
            if rs <= rv:
                n_true += above
                for t, rt in pairs:
                    try:
                        ok = inr(s, t) == (rv < rt)
                    except Exception:
                        ok = False
                    if not ok:
                        n_bad += 1
                        if n_bad <= MAX_PER_TASK:
                            report_inrange(ctx, e, rank, v, s, t)
            else:
                for t in D:
                    try:
                        ok = not inr(s, t)
                    except Exception:
                        ok = False
                    if not ok:
                        n_bad += 1
                        if n_bad <= MAX_PER_TASK:
                            report_inrange(ctx, e, rank, v, s, t)
        for pname, f in (('protocol_earlier', ue),
                         ('protocol_earlier_eq', uee)):
            for b in D:
                try:
                    if not f(v, b):
                        continue
                    n_prem += 1
                    for c in D:
                        if f(b, c) and not f(v, c):
                            n_bad += 1
                            if n_bad <= MAX_PER_TASK:
                                report_trans(ctx, e, pname, v, b, c)
                except Exception:
                    pass        # raising pairs are reported by the pair pass
    n = len(vs) * len(D) * len(D)
    ctx.count(3 * n)
    ctx.note_distinct(3 * n)
    ctx.outcome('in_range True', n_true)
    ctx.outcome('in_range False', n - n_true)
    ctx.cls('transitivity premises true (a,b)', n_prem)
    ctx.extra['triple_violations_total'] = n_bad


def report_inrange(ctx, e, rank, v, s, t):
    text = inrange_failure(e, rank, v, s, t)
    if text:
        ctx.violation('in_range v=%s start=%s end=%s' % (fmt(v), fmt(s),
                                                         fmt(t)),
                      text, {'op': 'inrange', 'v': v, 'start': s, 'end': t})


def report_trans(ctx, e, pname, a, b, c):
    f = getattr(e.U, pname)
    try:
        got = (f(a, b), f(b, c), f(a, c))
    except Exception as x:
        got = 'raised %r' % (x,)
    if isinstance(got, str) or (got[0] and got[1] and not got[2]):
        ctx.violation('transitive %s %s %s %s' % (pname, fmt(a), fmt(b),
                                                  fmt(c)),
                      'utility.%s: (%s,%s), (%s,%s), (%s,%s) -> %r; the first '
                      'two hold, so must the third'
                      % (pname, fmt(a), fmt(b), fmt(b), fmt(c), fmt(a), fmt(c),
                         got),
                      {'op': 'trans', 'a': a, 'b': b, 'c': c, 'pred': pname})


def part_a(ctx, e):
    records = e.base[0]
    K, rank, howmany = first_ranks(records)
    n_pre = sum(1 for p in K if p & PRE)
    n_dup = sum(1 for p in K if howmany[p] > 1)
    far = 0
    for p in K:          # a number carried by records that are not adjacent
        idx = [i for i in range(len(records)) if records[i][1] == p]
        if idx[-1] - idx[0] + 1 != len(idx):
            far += 1
    ctx.cls('known protocol numbers', len(K))
    ctx.cls('PRE-flagged numbers', n_pre)
    ctx.cls('numbers carried by several records', n_dup)
    ctx.cls('numbers whose records are not adjacent in the list', far)
    if not n_pre or not n_dup:
        raise ToolError('vacuous: the record list has %d PRE-flagged and %d '
                        'duplicated numbers' % (n_pre, n_dup))
    ctx.extra['known_numbers'] = len(K)
    ctx.extra['records'] = len(records)

    base_fails = check_base_tables(ctx, e)
    ctx.count()
    check_records_order(ctx, records)
    ctx.count()
    for p in K:
        if p & PRE:
            ctx.count()
            ctx.note_distinct(1)
            check_placement(ctx, e, records, rank, p)
            lo, up = enclosing(records, rank, p)
            ctx.cls('PRE placement: enclosed on both sides'
                    if lo is not None and up is not None
                    else 'PRE placement: one side only')
    mats = pairs_all(ctx, e, K, rank)
    axioms(ctx, K, *mats)
    # vacuity: pairs on which numeric order and publication order disagree
    ctx.cls('pairs where numeric order differs from publication order',
            sum(1 for a in K for b in K
                if (a < b) != (rank[a] < rank[b])))
    ctx.cls('pairs PRE-flagged vs ordinary',
            2 * n_pre * (len(K) - n_pre))
    ctx.cls('pairs equal', len(K))

    D = triple_domain(K, howmany, ctx.tier, ctx.seed)
    per = max(1, len(D) // (JOBS * 6))
    tasks = [(D[i:i + per], D) for i in range(0, len(D), per)]
    ctx.pmap(w_triples, tasks)
    ctx.extra['triples_domain_size'] = len(D)
    ctx.extra['triples_by_real_calls'] = (
        '%d^3 = %d triples: protocol_in_range on a real ConnectionContext, '
        'and transitivity of utility.protocol_earlier and '
        'protocol_earlier_eq by real calls (inner call skipped when the '
        'premise earlier(a,b) is false)' % (len(D), len(D) ** 3))
    ctx.sample({'pair': [fmt(K[-1]), fmt(PRE | 60)],
                'rank': [rank[K[-1]], rank.get(PRE | 60)],
                'observed': list(pair_observe(e, K[-1], PRE | 60))
                if (PRE | 60) in rank else None})
    return base_fails


# -- part (b): histories ---------------------------------------------------------

class Plan(object):
    """The action alphabet, fixed from the base records and the seed."""

    def __init__(self, e, seed):
        base = e.base[0]
        self.base_len = len(base)
        self.base_ids = set(r[0] for r in base)
        K, rank, _ = first_ranks(base)
        self.base_K = K
        sup_numbers = set(r[1] for r in base if r[2])
        # number re-used by 'existing number' appends: the earliest
        # unsupported PRE-flagged one (else the middle record's)
        self.dup = base[len(base) // 2][1]
        for r in base:
            if r[1] & PRE and r[1] not in sup_numbers:
                self.dup = r[1]
                break
        self.seed_dup = base[random.Random(seed).randrange(len(base))][1]
        # number used for the direct SUPPORTED_MINECRAFT_VERSIONS entry: the
        # last known number no supported record carries (else the last)
        self.edit_proto = K[-1]
        for r in reversed(base):
            if r[1] not in sup_numbers:
                self.edit_proto = r[1]
                break
        # mid-list anchors: the latest gap of >= 8 free numbers between two
        # neighbouring ordinary records / two neighbouring PRE records
        self.anchor = {}
        for kind, flag in (('ord', 0), ('pre', PRE)):
            for i in range(len(base) - 1, 0, -1):
                p, q = base[i - 1][1], base[i][1]
                if p & PRE == flag and q & PRE == flag and q - p >= 8:
                    self.anchor[kind] = (base[i][0], p, q)
                    break
            else:
                raise ToolError('no mid-list gap for %s inserts' % kind)
        # the latest place where a PRE-flagged record and an ordinary one
        # are neighbours (round 4: an out-of-order number goes in between)
        for i in range(len(base) - 1, 0, -1):
            p, q = base[i - 1][1], base[i][1]
            if p & PRE != q & PRE and p != q:
                self.anchor['mix'] = (base[i][0], p, q)
                break
        else:
            raise ToolError('no PRE-flagged / ordinary neighbours')
        # ids that are listed again / replaced in place: S = the middle one
        # of the supported release-shaped records, U = the last unsupported
        # record whose number no supported record carries
        rel_sup = [r for r in base if r[2] and is_release(r[0])]
        unsup = [r for r in base if not r[2] and r[1] not in sup_numbers]
        if not rel_sup or not unsup:
            raise ToolError('no target records for re-listing')
        self.target = {'S': rel_sup[len(rel_sup) // 2][0],
                       'U': unsup[-1][0]}
        for t in self.target.values():
            if sum(1 for r in base if r[0] == t) != 1:
                raise ToolError('re-listing target %r is not listed exactly '
                                'once in the base records' % t)
        acts = []
        for num in ('ord', 'dup', 'pre'):
            for sup in ('sup', 'unsup'):
                for shape in ('rel', 'snap'):
                    acts.append('app:%s:%s:%s' % (num, sup, shape))
        acts += ['app:seeddup:sup:snap', 'ins:ord', 'ins:pre']
        self.old_actions = list(acts)
        # round 3: an id listed again, a record replaced in place, a record
        # removed and another added (the record count stays the same)
        acts += ['rel:S:same', 'rel:S:flip', 'rel:S:num',
                 'rel:U:flip', 'rel:U:num', 'rep:S', 'rep:U', 'swap']
        self.r3_edits = list(acts)
        # round 4: records whose NUMBER is out of numeric order with respect
        # to their position (the order is the position, never the number)
        self.ooo = ['ooo:hi:ord', 'ooo:hi:mix', 'ooo:lo', 'ooo:hipre',
                    'ooo:lopre']
        acts += self.ooo
        # round 4: every edit of the records in a second form - done on a
        # copy of the list, which is then ASSIGNED to the module attribute
        self.edits = list(acts)
        acts += [a + NEW for a in self.edits]
        self.inits = ['initT', 'initF', 'edit+init']
        self.actions = acts + self.inits
        self.r3_actions = self.r3_edits + self.inits
        self.r4 = set(self.actions) - set(self.r3_actions)
        self.old = set(self.old_actions + self.inits)
        pre_base = [p for p in K if p & PRE]
        ords = [p for p in K if not p & PRE]
        b = set([K[0], K[1], K[-1], K[-2], max(ords), max(pre_base),
                 min(pre_base), self.dup, self.seed_dup, self.edit_proto])
        k0 = K.index(min(pre_base))
        b.update(K[max(0, k0 - 1):k0 + 1])
        for kind in ('ord', 'pre', 'mix'):
            b.update(self.anchor[kind][1:])
        for t in self.target.values():
            b.update(r[1] for r in base if r[0] == t)
        self.boundary = [p for p in K if p in b]


_PLAN = {}


def plan(seed):
    if seed not in _PLAN:
        _PLAN[seed] = Plan(env(), seed)
    return _PLAN[seed]


def new_id(P, records, shape):
    """A version id that no record carries (the first free one, counting
    from the number of records added so far)."""
    k = max(1, len(records) - P.base_len + 1)
    used = set(r[0] for r in records)
    while True:
        if shape == 'rel':
            s = '9.9' if k == 1 else '9.9.%d' % k
        else:
            s = '99w%02da' % k
        if s not in P.base_ids and s not in used:
            return s
        k += 1


def split_form(name):
    """-> (action, True if it is done on a copy that is then assigned)"""
    if name.endswith(NEW):
        return name[:-len(NEW)], True
    return name, False


def free_in_gap(records, lo, hi):
    """The first number of the gap lo < p < hi that no record carries."""
    used = set(r[1] for r in records)
    for p in range(lo + 1, hi):
        if p not in used:
            return p
    raise ToolError('insert gap exhausted')


def mutate(e, P, name):
    """The edit part of an action, done the way a library user would: on
    the list object that minecraft.KNOWN_MINECRAFT_VERSION_RECORDS is at the
    moment, or (form '@new') on a copy of it that is then assigned to the
    attribute (records = records + [...], a sorted / filtered copy, ...)."""
    M = e.M
    name, rebind = split_form(name)
    records = M.KNOWN_MINECRAFT_VERSION_RECORDS
    if rebind:
        if name in P.inits:
            raise ToolError('no second form of %r' % name)
        records = list(records)
    edit_records(e, P, name, records)
    if rebind:
        M.KNOWN_MINECRAFT_VERSION_RECORDS = records


def edit_records(e, P, name, records):
    M = e.M
    parts = name.split(':')
    if parts[0] == 'ooo':
        kind = parts[1]
        if kind == 'hi':       # a LARGER ordinary number before smaller ones
            p = max(r[1] for r in records if not r[1] & PRE) + 1
            at = [i for i, r in enumerate(records)
                  if r[0] == P.anchor[parts[2]][0]][0]
            records.insert(at, e.Version(new_id(P, records, 'rel'), p, True))
        elif kind == 'lo':     # a SMALLER ordinary number after larger ones
            _, lo, hi = P.anchor['ord']
            records.append(e.Version(new_id(P, records, 'rel'),
                                     free_in_gap(records, lo, hi), True))
        elif kind == 'hipre':  # a larger PRE-flagged number before smaller
            p = max(r[1] for r in records if r[1] & PRE) + 1
            at = [i for i, r in enumerate(records)
                  if r[0] == P.anchor['pre'][0]][0]
            records.insert(at, e.Version(new_id(P, records, 'snap'), p,
                                         False))
        elif kind == 'lopre':  # a smaller PRE-flagged number after larger
            _, lo, hi = P.anchor['pre']
            records.append(e.Version(new_id(P, records, 'snap'),
                                     free_in_gap(records, lo, hi), False))
        else:
            raise ToolError('unknown action %r' % name)
    elif parts[0] == 'app':
        num, sup, shape = parts[1:]
        if num == 'ord':
            p = max(r[1] for r in records if not r[1] & PRE) + 1
        elif num == 'pre':
            p = max(r[1] for r in records if r[1] & PRE) + 1
        elif num == 'dup':
            p = P.dup
        else:
            p = P.seed_dup
        records.append(e.Version(new_id(P, records, shape), p, sup == 'sup'))
    elif parts[0] == 'ins':
        aid, lo, hi = P.anchor[parts[1]]
        p = free_in_gap(records, lo, hi)
        at = [i for i, r in enumerate(records) if r[0] == aid][0]
        records.insert(at, e.Version(new_id(P, records, 'rel'), p, True))
    elif parts[0] in ('rel', 'rep'):
        tid = P.target[parts[1]]
        at = [i for i, r in enumerate(records) if r[0] == tid]
        if not at:
            raise ToolError('target record %r is gone' % tid)
        first = records[at[0]]
        if parts[0] == 'rep':      # replaced in place, support flag flipped
            records[at[0]:at[0] + 1] = [e.Version(tid, first[1],
                                                  not first[2])]
        elif parts[2] == 'same':
            records.append(e.Version(tid, first[1], bool(first[2])))
        elif parts[2] == 'flip':
            records.append(e.Version(tid, first[1], not first[2]))
        else:                      # 'num': listed again with a new number
            p = max(r[1] for r in records if not r[1] & PRE) + 1
            records.append(e.Version(tid, p, bool(first[2])))
    elif name == 'swap':           # one record removed, another one added
        del records[-1]
        p = max(r[1] for r in records if not r[1] & PRE) + 1
        records.append(e.Version(new_id(P, records, 'rel'), p, True))
    elif name == 'edit+init':
        S = M.SUPPORTED_MINECRAFT_VERSIONS
        k = 1 + sum(1 for i in S if i.startswith('9.8.'))
        S['9.8.%d' % k] = P.edit_proto
    elif name not in ('initT', 'initF'):
        raise ToolError('unknown action %r' % name)


def call_init(e, name):
    if name == 'initT':
        e.M.initglobals(True)
    elif name == 'initF':
        e.M.initglobals(False)
    else:
        e.M.initglobals()


def touched_numbers(P, records):
    """Numbers worth re-checking on an extended list: those of the records
    that are not base records, then the fixed boundary numbers."""
    base = set(P.base_K)
    K = dedup(r[1] for r in records)
    new = [p for p in K if p not in base]
    added = [r[1] for r in records if r[0] not in P.base_ids]
    touched = dedup(new + added)
    return touched, dedup(touched + P.boundary)


CTX_PREDS = ('protocol_earlier', 'protocol_earlier_eq', 'protocol_later',
             'protocol_later_eq')


def exercise(c, a):
    """One call of every predicate (a context has to be USED to count as a
    long-lived observer); the results are judged elsewhere."""
    try:
        c.protocol_earlier(a)
        c.protocol_earlier_eq(a)
        c.protocol_later(a)
        c.protocol_later_eq(a)
        c.protocol_in_range(a, a)
    except Exception:
        pass


OBS_ALL = 'made before the first step and used after every step'
OBS_RE = ('made before the first step for another version and used; '
          'protocol_version assigned after the rebuild')


def make_observers(e, P, prefix, records):
    """Long-lived ConnectionContexts for the history whose intermediate
    states are `prefix` (snapshots: start, after action 1, ...).  Generation
    k: created and used in state k only; OBS_ALL: created at the start, used
    in every state; OBS_RE: created at the start for ANOTHER version and
    used, re-targeted by assignment when queried.  A state is re-created by
    restoring its snapshot in place (a context can only remember what it
    saw in the tables when it was used).  Leaves the LAST prefix state."""
    CC = e.CC
    _, nums = touched_numbers(P, records)
    gens, everywhere, retarget = [], {}, {}
    for k, S in enumerate(prefix):
        e.restore(S)
        known = set(p for p, _ in S[T_IDX['PROTOCOL_VERSION_INDICES']])
        usable = [a for a in nums if a in known]
        g = {}
        for a in usable:
            g[a] = c = CC(protocol_version=a)
            exercise(c, a)
        gens.append(('at-step-%d' % k, 'made and used after step %d of %d'
                     % (k, len(prefix) - 1), g))
        if k == 0:
            for j, a in enumerate(usable):
                everywhere[a] = CC(protocol_version=a)
                other = usable[(j + 1) % len(usable)]
                retarget[a] = c = CC(protocol_version=other)
                exercise(c, other)
        for a in usable:
            if a in everywhere:
                exercise(everywhere[a], a)
    gens.append(('all-steps', OBS_ALL, everywhere))
    gens.append(('reassigned', OBS_RE, retarget))
    return gens


def observer_failures(e, rank, nums, small, gens, out, unit):
    """The contexts of make_observers, asked after the rebuild."""
    n_obs = 0
    for tag, label, g in gens:
        for a in nums:
            c = g.get(a)
            if c is None or a not in rank:
                continue
            if tag == 'reassigned':
                c.protocol_version = a
            n_obs += 1
            ra = rank[a]
            f = [getattr(c, n) for n in CTX_PREDS]
            for b in nums:
                rb = rank[b]
                want = (ra < rb, ra <= rb, ra > rb, ra >= rb)
                try:
                    got = (bool(f[0](b)), bool(f[1](b)), bool(f[2](b)),
                           bool(f[3](b)))
                except Exception as x:
                    got = 'raised %s(%s)' % (type(x).__name__, x)
                if got == want:
                    continue
                for k, pn in enumerate(CTX_PREDS):
                    if isinstance(got, str) or bool(got[k]) != want[k]:
                        break
                fresh = pair_observe(e, a, b)
                out.append((
                    'observer[%s] %s %s %s' % (tag, fmt(a), fmt(b), pn),
                    'a ConnectionContext for %s that was %s says after the '
                    'rebuild: %s(%s) = %s, expected %r (%s%d, %s%d; a '
                    'fresh context and minecraft.utility give %r)'
                    % (fmt(a), label, pn, fmt(b),
                       got if isinstance(got, str) else got[k], want[k],
                       unit, ra, unit, rb, fresh)))
                if len(out) > 6:
                    return n_obs
            if a in small:
                inr = c.protocol_in_range
                for s_ in small:
                    for t in small:
                        want = rank[s_] <= ra < rank[t]
                        try:
                            got = inr(s_, t)
                        except Exception as x:
                            got = 'raised %s(%s)' % (type(x).__name__, x)
                        if isinstance(got, str) or bool(got) != want:
                            out.append((
                                'observer[%s] in_range %s %s %s'
                                % (tag, fmt(a), fmt(s_), fmt(t)),
                                'a ConnectionContext for %s that was %s says '
                                'after the rebuild: protocol_in_range(%s, %s)'
                                ' = %r, expected %r'
                                % (fmt(a), label, fmt(s_), fmt(t), got,
                                   want)))
                            if len(out) > 6:
                                return n_obs
    return n_obs


def predicates_after(e, P, records, rank, unit, gens=()):
    """Pair predicates (and in_range) on the extended list: fresh contexts
    and minecraft.utility, then the long-lived contexts `gens`.
    -> (failures, numbers used, observers asked, counts for the evidence)"""
    touched, nums = touched_numbers(P, records)
    nums = [p for p in nums if p in rank]
    touched = [p for p in touched if p in rank]
    near = neighbours(rank, touched)
    nums = dedup(nums + near)
    stats = {'numeric_vs_list': 0, 'triples': 0}
    out = []
    CC, ue, uee = e.CC, e.U.protocol_earlier, e.U.protocol_earlier_eq
    for a in nums:
        c = CC(protocol_version=a)
        f1, f2, f3, f4 = (c.protocol_earlier, c.protocol_earlier_eq,
                          c.protocol_later, c.protocol_later_eq)
        ra = rank[a]
        for b in nums:
            rb = rank[b]
            if (a < b) != (ra < rb) and a & PRE == b & PRE:
                stats['numeric_vs_list'] += 1
            try:
                got = (f1(b), f2(b), f3(b), f4(b), ue(a, b), uee(a, b))
            except Exception:
                got = None
            if got != (ra < rb, ra <= rb, ra > rb, ra >= rb, ra < rb,
                       ra <= rb):
                out += [('pair %s %s %s' % (fmt(a), fmt(b), lab), txt)
                        for lab, txt in pair_failures(e, rank, a, b, unit)]
                if len(out) > 6:
                    return out, len(nums), 0, stats
    small = dedup(touched + [p for p in P.boundary[-3:] if p in rank])
    # triples (v, s, t) that involve a new number, over the new numbers,
    # their neighbours in the list and the last boundary numbers: in_range
    # on a fresh context, transitivity of both utility predicates
    tri = dedup(small + near)
    tset, sset = set(touched), set(small)
    for v in tri:
        inr = CC(protocol_version=v).protocol_in_range
        rv = rank[v]
        for s in tri:
            lo = rank[s] <= rv
            try:
                vs = (ue(v, s), uee(v, s))
            except Exception:
                vs = None                 # reported by the pair pass
            for t in tri:
                if not (v in tset or s in tset or t in tset or
                        (v in sset and s in sset and t in sset)):
                    continue
                stats['triples'] += 1
                try:
                    ok = inr(s, t) == (lo and rv < rank[t])
                except Exception:
                    ok = False
                if not ok:
                    txt = inrange_failure(e, rank, v, s, t)
                    if txt:
                        out.append(('in_range %s %s %s'
                                    % (fmt(v), fmt(s), fmt(t)), txt))
                if vs is not None and v in tset:
                    for k, (pn, f) in enumerate((('protocol_earlier', ue),
                                                 ('protocol_earlier_eq',
                                                  uee))):
                        try:
                            ok = not (vs[k] and f(s, t)) or f(v, t)
                        except Exception:
                            continue
                        if not ok:
                            out.append((
                                'transitive %s %s %s %s'
                                % (pn, fmt(v), fmt(s), fmt(t)),
                                'utility.%s holds for (%s, %s) and (%s, %s) '
                                'but not for (%s, %s)'
                                % (pn, fmt(v), fmt(s), fmt(s), fmt(t),
                                   fmt(v), fmt(t))))
                if len(out) > 6:
                    return out, len(nums), 0, stats
    n_obs = 0
    if gens and not out:
        n_obs = observer_failures(e, rank, nums, set(small), gens, out, unit)
    return out, len(nums), n_obs, stats


def neighbours(rank, touched):
    """For every touched number: the number right before it and right after
    it in the list (the order oracle `rank`), and the nearest number OF ITS
    OWN KIND (ordinary / PRE-flagged) before it and after it; these are the
    numbers an out-of-order number must be compared with on either side."""
    if not touched:
        return []
    K = sorted(rank, key=rank.get)
    pos = dict((p, k) for k, p in enumerate(K))
    out = []
    for t in touched:
        for rng in (range(pos[t] - 1, -1, -1), range(pos[t] + 1, len(K))):
            first = True
            for k in rng:
                if first:
                    out.append(K[k])
                    first = False
                if K[k] & PRE == t & PRE:
                    out.append(K[k])
                    break
    return dedup(out)


def first_ranks_fast(records):
    """Same result as first_ranks (cross-checked in run), dict membership."""
    order, rank, howmany = [], {}, {}
    for i, r in enumerate(records):
        p = r[1]
        if p not in rank:
            rank[p] = i
            order.append(p)
            howmany[p] = 0
        howmany[p] += 1
    return order, rank, howmany


def judge_init(e, P, name, before, twice=True, gens=()):
    """Failures [(label, text)] of one re-initialisation just performed;
    leaves the module in the state reached by the FIRST call."""
    fails = []
    snap = e.snapshot()
    relaxed = False
    if snap[0] != before[0]:
        fails.append(('records changed', 'initglobals changed '
                      'KNOWN_MINECRAFT_VERSION_RECORDS (%d records before, %d '
                      'after)' % (len(before[0]), len(snap[0]))))
    if name == 'initT':
        exp = project(snap[0])
        relaxed = bool(exp['amb_known'] or exp['amb_sup'])
        fails += table_failures(snap, exp, TABLES)
    else:
        src = before[T_IDX['SUPPORTED_MINECRAFT_VERSIONS']]
        if snap[T_IDX['SUPPORTED_MINECRAFT_VERSIONS']] != src:
            fails.append(('source changed', 'initglobals(False) changed its '
                          'source SUPPORTED_MINECRAFT_VERSIONS: %s'
                          % diff_text('SUPPORTED_MINECRAFT_VERSIONS',
                                      snap[T_IDX['SUPPORTED_MINECRAFT_VERSIONS'
                                                 ]], src)))
        exp = project_supported(list(src))
        fails += table_failures(snap, exp, sorted(exp))
    fails += e.identity_failures()
    info = {'nums': 0, 'observers': 0, 'relaxed': relaxed}
    if name == 'initT' and not fails:
        if relaxed:
            # the order is the observed (admissible) number list
            rank = dict((p, k) for k, p in enumerate(
                snap[T_IDX['KNOWN_PROTOCOL_VERSIONS']]))
            unit = 'number #'
        else:
            rank = first_ranks_fast(snap[0])[1]
            unit = 'record #'
        pf, info['nums'], info['observers'], stats = predicates_after(
            e, P, list(snap[0]), rank, unit, gens)
        info.update(stats)
        fails += pf
    # idempotence: the same call once more changes nothing
    if not twice:
        return fails, snap, info
    try:
        call_init(e, 'initF' if name == 'edit+init' else name)
        again = e.snapshot()
    except Exception as x:
        again = None
        fails.append(('second call raises', 'calling initglobals a second '
                      'time raised %s(%s)' % (type(x).__name__, x)))
    if again is not None and again[:STALE] != snap[:STALE]:
        which = [n for n in TABLES if again[T_IDX[n]] != snap[T_IDX[n]]]
        if again[0] != snap[0]:
            which.insert(0, 'KNOWN_MINECRAFT_VERSION_RECORDS')
        fails.append(('not idempotent', 'a second identical initglobals call '
                      'changed %s' % ', '.join(which)))
    if again != snap:
        e.restore(snap)
    return fails, snap, info


NEW_FAMILIES = {'rel': 'an id listed again', 'rep': 'a record replaced in '
                'place', 'swap': 'a record removed and another added'}


OOO_FAMILIES = {
    'hi': 'a larger ordinary number listed before smaller ones',
    'lo': 'a smaller ordinary number listed after larger ones',
    'hipre': 'a larger PRE-flagged number listed before smaller ones',
    'lopre': 'a smaller PRE-flagged number listed after larger ones'}


def family(a):
    parts = split_form(a)[0].split(':')
    if parts[0] == 'rel':
        return 'an id listed again (%s)' % {
            'same': 'same values', 'flip': 'supported flag differs',
            'num': 'another number'}[parts[2]]
    if parts[0] == 'ooo':
        if parts[1] == 'hi' and parts[2] == 'mix':
            return ('a larger ordinary number listed between a PRE-flagged '
                    'and a smaller ordinary one')
        return OOO_FAMILIES[parts[1]]
    return NEW_FAMILIES.get(parts[0])


def form_classes(P, full):
    """How the record list object was treated along a history."""
    forms = [split_form(a)[1] for a in full
             if split_form(a)[0] in P.edits]
    out = []
    if True in forms:
        out.append('the record list assigned as a new list object')
        k = forms.index(True)
        if False in forms[k + 1:]:
            out.append('the record list assigned as a new list object, then '
                       'the new list edited in place')
        if False in forms[:len(forms) - forms[::-1].index(True) - 1]:
            out.append('the record list edited in place, then assigned as a '
                       'new list object')
    return out


def step(ctx, e, P, hist, name, judge=True, prefix=None, hold=None):
    """Apply one action on the live module.  -> (violated, snapshot|None)
    prefix: snapshots of the states the history went through (start, after
    each action of hist); given, long-lived contexts are created in those
    states and asked again after an initglobals(True).  hold: a list that
    receives (key, what, case) instead of ctx.violation."""
    emit = ctx.violation if hold is None else \
        (lambda k, w, c: hold.append((k, w, c)))
    mutate(e, P, name)
    if name not in P.inits:
        return False, None
    if not judge:
        call_init(e, name)
        return False, None
    before = e.snapshot()
    gens = ()
    if name == 'initT' and prefix is not None:
        gens = make_observers(e, P, prefix, list(before[0]))
        e.restore(before)
    full = tuple(hist) + (name,)
    case = {'op': 'history', 'actions': list(full), 'seed_dup': P.seed_dup}
    try:
        call_init(e, name)
    except Exception as x:
        emit('history %s :: raises' % '/'.join(full),
             'after the run-time edits %s, initglobals raised %s(%s)'
             % (list(hist), type(x).__name__, x), case)
        ctx.outcome('%s raises' % name)
        return True, None
    twice = len(full) <= (TWICE_R4_UP_TO if any(a in P.r4 for a in full)
                          else TWICE_UP_TO)
    fails, snap, info = judge_init(e, P, name, before, twice, gens)
    if twice:
        ctx.cls('re-initialisations repeated for idempotence')
    ctx.count()
    ctx.traces += 1
    if any(a not in ('initT', 'initF') for a in full[:-1]) or \
            name == 'edit+init':
        ctx.note_distinct(1)
    if fails:
        ctx.outcome('%s violates' % name)
        emit('history %s :: %s' % ('/'.join(full), fails[0][0]),
             'history %s: after the last re-initialisation: %s'
             % (' -> '.join(full), ' || '.join(t for _, t in fails[:4])),
             case)
        return True, snap
    ctx.outcome('%s ok' % name)
    if name == 'initT':
        ctx.cls('initT judged with %d extension records'
                % (len(snap[0]) - P.base_len))
        if len(snap[T_IDX['SUPPORTED_MINECRAFT_VERSIONS']]) != \
                len(before[T_IDX['SUPPORTED_MINECRAFT_VERSIONS']]):
            ctx.cls('initT changed the number of supported ids')
        if info['nums']:
            ctx.cls('initT: predicate pairs re-checked',
                    info['nums'] * info['nums'])
        if info['observers']:
            ctx.cls('initT: long-lived contexts asked again after the '
                    'rebuild', info['observers'])
            if before[T_IDX['PROTOCOL_VERSION_INDICES']] != \
                    snap[T_IDX['PROTOCOL_VERSION_INDICES']]:
                ctx.cls('initT with long-lived contexts: the rebuild changed '
                        'the index map')
                old = dict(before[T_IDX['PROTOCOL_VERSION_INDICES']])
                if any(old.get(p, k) != k for p, k in
                       snap[T_IDX['PROTOCOL_VERSION_INDICES']]):
                    ctx.cls('initT with long-lived contexts: the rebuild '
                            'moved the index of a number that was known')
        if info['relaxed']:
            ctx.cls('initT judged by the relaxed rule (an id listed with '
                    'several numbers)')
        for fam in sorted(set(f for f in map(family, full) if f)):
            ctx.cls('initT after %s' % fam)
        for fc in form_classes(P, full):
            ctx.cls('initT after %s' % fc)
        if info.get('numeric_vs_list'):
            ctx.cls('initT: re-checked pairs of two ordinary (or two '
                    'PRE-flagged) numbers whose numeric order is not their '
                    'order in the list', info['numeric_vs_list'])
        if info.get('triples'):
            ctx.cls('initT: triples around the new numbers by real calls '
                    '(in_range, transitivity)', info['triples'])
    else:
        stale = project(snap[0])       # cached per record list
        if stale and list(snap[T_IDX['SUPPORTED_MINECRAFT_VERSIONS']]) != \
                stale['SUPPORTED_MINECRAFT_VERSIONS']:
            ctx.cls('%s with SUPPORTED_MINECRAFT_VERSIONS differing from the '
                    'records (user edit or stale)' % name)
        else:
            ctx.cls('%s with SUPPORTED_MINECRAFT_VERSIONS in step with the '
                    'records' % name)
    return False, snap


def resync(e):
    """Whatever initglobals may remember from one call to the next (nothing
    on the unchanged tree) is brought to what a rebuild from the unextended
    records leaves, so that a history starts like after a fresh import."""
    e.restore(e.base)
    try:
        e.M.initglobals(True)
    except Exception:
        pass
    e.restore(e.base)


def confirm(ctx, e, P, full):
    """Re-execute a failing history alone, from a resync, by real calls only
    (no restored intermediate states).  -> held violations [(key, what,
    case)]; empty if it passes this way."""
    held = []
    resync(e)
    prefix, hist = [e.base], ()
    for a in full[:-1]:
        try:
            step(ctx, e, P, hist, a, judge=False)
        except Exception:
            return held
        hist += (a,)
        prefix.append(e.snapshot())
    step(ctx.fork(), e, P, hist, full[-1], prefix=prefix, hold=held)
    return held


def w_expand(ctx, task, confirming=True):
    """Expand a sorted run of histories (neighbours share prefixes, whose
    states are kept on a stack instead of being replayed again).  A failing
    history is executed once more alone (confirm): the violation reported is
    the one that `replay` reproduces."""
    hists, mode = task
    if mode is True or mode is False:       # (replay files of earlier rounds)
        mode = 'inits' if mode else 'all'
    last = mode in ('inits', 'initT')
    e = env()
    P = plan(ctx.seed)
    alphabet = {'inits': P.inits, 'all': P.actions, 'r3': P.r3_actions,
                'initT': ['initT']}[mode]
    succ = []
    stack = []                     # (action, snapshot after it)
    try:
        resync(e)
        for i, hist in enumerate(hists):
            k = 0
            while k < len(stack) and k < len(hist) and \
                    stack[k][0] == hist[k]:
                k += 1
            del stack[k:]
            e.restore(stack[-1][1] if stack else e.base)
            for a in hist[k:]:
                step(ctx, e, P, (), a, judge=False)
                stack.append((a, e.snapshot()))
            S = stack[-1][1] if stack else e.base
            prefix = [e.base] + [sn for _, sn in stack]
            if mode == 'initT':
                prefix = None       # (judged without long-lived contexts)
            for a in alphabet:
                ctx.transitions += 1
                held = []
                bad, snap = step(ctx, e, P, hist, a, prefix=prefix,
                                 hold=held)
                if snap is None and a not in P.inits:
                    # an edit of the records: the tables are those of S
                    snap = (tuple(e.M.KNOWN_MINECRAFT_VERSION_RECORDS),) + \
                        S[1:STALE] + (e.stale(),)
                    edit_only = True
                else:
                    edit_only = False
                    if snap is None:
                        snap = e.snapshot()
                c = canon(snap)
                ctx.state(c)
                if not bad and not last:
                    succ.append((c, hist + (a,)))
                if held:
                    alone = confirm(ctx, e, P, hist + (a,)) \
                        if confirming else []
                    for key, what, case in alone:
                        ctx.violation(key, what, case)
                    if not alone:
                        key, what, case = held[0]
                        ctx.violation(
                            key + (' [after other histories]'
                                   if confirming else ''),
                            what + ' [this happens when the histories %s '
                            'were expanded before in the same process; the '
                            'history executed alone after a fresh rebuild '
                            'passes: initglobals depends on something '
                            'besides the records and the tables]'
                            % ([' -> '.join(h) or '(empty)'
                                for h in hists[:i]][-3:],),
                            {'op': 'task', 'last': bool(last), 'mode': mode,
                             'hists': [list(h) for h in hists[:i + 1]],
                             'seed_dup': P.seed_dup})
                if edit_only:
                    e.restore_records(S)
                else:
                    e.restore(S)
    finally:
        e.restore(e.base)
    ctx.extra['succ'] = succ


def part_b(ctx, e):
    P = plan(ctx.seed)
    depth = 5 if ctx.thorough else 3
    rnd = random.Random(ctx.seed)
    base = e.base
    seen = set([canon(base)])
    ctx.state(canon(base))
    frontier = [()]
    done = 0
    per_level = []
    for level in range(1, depth + 1):
        last = level == depth
        # round-4 actions (out-of-order numbers, the '@new' forms): anywhere
        # in histories of <= R4_UP_TO + 1 actions; a state reached WITH them
        # in R4_UP_TO actions is only rebuilt by initglobals(True) (judged
        # without long-lived contexts, not extended further), one reached
        # without them goes on with the round-3 alphabet
        groups = {}
        for h in frontier:
            with4 = any(a in P.r4 for a in h)
            if last:
                mode = 'inits'
            elif level <= R4_UP_TO:
                mode = 'all'
            else:
                mode = 'initT' if with4 else 'r3'
            groups.setdefault(mode, []).append(h)
        tasks = []
        for mode in sorted(groups):
            hs = groups[mode]
            per = max(1, min(64, len(hs) // (JOBS * 4)))
            tasks += [(hs[i:i + per], mode) for i in range(0, len(hs), per)]
        rnd.shuffle(tasks)
        before_v = len(ctx.violations)
        ctx.extra.pop('succ', None)
        ctx.pmap(w_expand, tasks)
        succ = ctx.extra.pop('succ', None) or []
        done = level
        best = {}
        for c, hist in succ:
            # representative of a state: fewest round-3 actions, then least
            key = (sum(1 for a in hist if a in P.r4),
                   sum(1 for a in hist if a not in P.old), hist)
            if c not in seen and (c not in best or key < best[c]):
                best[c] = key
        seen.update(best)
        per_level.append({'level': level, 'expanded': len(frontier),
                          'expanded_by_alphabet': dict(
                              (m, len(hs)) for m, hs in groups.items()),
                          'new_states': len(best) if not last else None})
        frontier = sorted(h for _, _, h in best.values())
        if level + 1 > R4_UP_TO + 1:
            frontier = sorted(h for n4, _, h in best.values() if n4 == 0)
            per_level[-1]['carried_on'] = len(frontier)
        if level + 1 > FULL_ALPHABET_UP_TO:
            # the longest histories (thorough) keep to the states reached
            # by appends / inserts / re-initialisations only
            frontier = sorted(h for n4, n, h in best.values()
                              if n == 0 and n4 == 0)
            per_level[-1]['carried_on'] = len(frontier)
        if len(ctx.violations) > before_v:
            ctx.extra['histories_stopped_after_level'] = level
            break
        if not frontier:
            break
    if not ctx.violations:
        for label in ('initT: long-lived contexts asked again after the '
                      'rebuild',
                      'initT with long-lived contexts: the rebuild moved the '
                      'index of a number that was known',
                      'initT after an id listed again (supported flag '
                      'differs)',
                      'initT after an id listed again (another number)',
                      'initT after a record replaced in place',
                      'initT after a record removed and another added',
                      'initT after a larger ordinary number listed before '
                      'smaller ones',
                      'initT after a larger ordinary number listed between '
                      'a PRE-flagged and a smaller ordinary one',
                      'initT after a smaller ordinary number listed after '
                      'larger ones',
                      'initT after a larger PRE-flagged number listed before '
                      'smaller ones',
                      'initT after a smaller PRE-flagged number listed after '
                      'larger ones',
                      'initT after the record list assigned as a new list '
                      'object',
                      'initT after the record list assigned as a new list '
                      'object, then the new list edited in place',
                      'initT after the record list edited in place, then '
                      'assigned as a new list object',
                      'initT: re-checked pairs of two ordinary (or two '
                      'PRE-flagged) numbers whose numeric order is not their '
                      'order in the list',
                      'initT: triples around the new numbers by real calls '
                      '(in_range, transitivity)'):
            if not ctx.classes.get(label):
                raise ToolError('vacuous: no history of class %r' % label)
    ctx.extra['history_depth_completed'] = done
    ctx.extra['history_levels'] = per_level
    ctx.extra['history_alphabet'] = list(P.actions)
    ctx.extra['history_anchors'] = {
        'insert ord before': P.anchor['ord'][0],
        'insert pre before': P.anchor['pre'][0],
        'existing number': fmt(P.dup), 'seed-chosen number': fmt(P.seed_dup),
        'number for the SUPPORTED_MINECRAFT_VERSIONS entry':
            fmt(P.edit_proto)}
    ctx.sample({'history': ['ins:ord', 'app:pre:sup:rel', 'initT'],
                'meaning': 'insert supported release-shaped record with a '
                           'new ordinary number before %r, append a '
                           'supported PRE-flagged release, rebuild from the '
                           'records' % P.anchor['ord'][0]})


# -- (c) comparisons made by two threads at the same time ------------------------
# A process may hold several connections of different versions, each with its
# own thread, and every packet they read or write asks the predicates.  Every
# pair of the operations below is run by two threads with every source line
# of minecraft/utility.py and of ConnectionContext a scheduling point; in
# every schedule each thread must get the answer the rank gives.

RACE_MODULES = ('minecraft.utility',
                'minecraft.networking.connection:ConnectionContext')
PRE_ = 1 << 30
RACE_OPS = [
    ('earlier', 47, 757), ('earlier', 757, 47), ('earlier_eq', 340, 340),
    ('earlier_eq', 755, 340), ('ctx_later', 47, 107), ('ctx_later_eq', 757, 755),
    ('ctx_earlier', PRE_ | 1, 751), ('ctx_earlier_eq', 754, 754),
    ('in_range', 340, 47, 757), ('in_range', 757, 47, 757),
]


def race_want(op):
    """by plain loops over the records, as in part (a)"""
    e = env()
    _, rank, _ = first_ranks(e.base[0])
    k = op[0]
    r = [rank[x] for x in op[1:]]
    if k in ('earlier', 'ctx_earlier'):
        return r[0] < r[1]
    if k in ('earlier_eq', 'ctx_earlier_eq'):
        return r[0] <= r[1]
    if k == 'ctx_later':
        return r[0] > r[1]
    if k == 'ctx_later_eq':
        return r[0] >= r[1]
    return r[1] <= r[0] < r[2]


def race_op(op):
    e = env()
    k = op[0]
    if k == 'earlier':
        return lambda: bool(e.U.protocol_earlier(op[1], op[2]))
    if k == 'earlier_eq':
        return lambda: bool(e.U.protocol_earlier_eq(op[1], op[2]))
    if k == 'in_range':
        c = e.CC(protocol_version=op[1])
        return lambda: bool(c.protocol_in_range(op[2], op[3]))
    c = e.CC(protocol_version=op[1])
    return lambda: bool(getattr(c, 'protocol_' + k[4:])(op[2]))


def _tries(ops):
    out = []
    for f in ops:
        try:
            out.append(('ok', f()))
        except Exception as ex_:
            out.append(('exc', '%s: %s' % (type(ex_).__name__, ex_)))
    return out


def op_text(o):
    return '%s(%s)' % (o[0], ', '.join(fmt(x) for x in o[1:]))


def race_body(W, params):
    ops_ = [tuple(o) for o in params['ops']]
    ops = [race_op(o) for o in ops_]
    want = [('ok', race_want(o)) for o in ops_]
    alone = _tries(ops)
    got = interleave.race(W, ops)
    again = _tries(ops)
    viol = []
    for i, o in enumerate(ops_):
        if got[i] != want[i]:
            viol.append(('concurrent %s' % op_text(o),
                         '%s evaluated while another thread evaluates %s '
                         'gave %r; the order of the records says %r, alone '
                         'it gave %r' % (op_text(o), op_text(ops_[1 - i]),
                                         got[i], want[i], alone[i])))
        elif again[i] != want[i]:
            viol.append(('after concurrent use %s' % op_text(o),
                         '%s gives %r after the concurrent run, the order '
                         'of the records says %r' % (op_text(o), again[i],
                                                    want[i])))
    return {'outcome': tuple(got), 'violations': viol}


def race_factory(params):
    def scenario(prefix, expect, visited=None, budget=0):
        return interleave.run(lambda W: race_body(W, params), prefix, expect,
                              budget, modules=RACE_MODULES)
    return scenario


def run_races(ctx, ex):
    e = env()
    _, rank, _ = first_ranks(e.base[0])
    ops = [o for o in RACE_OPS if all(x in rank for x in o[1:])]
    if len(ops) < 6:
        raise ToolError('vacuity guard: only %d of the comparison operands '
                        'are known versions on this tree' % len(ops))
    bound = 3 if ctx.thorough else 2
    pairs = [(i, j) for i in range(len(ops)) for j in range(i, len(ops))]
    execs = 0
    for i, j in pairs:
        res = ex.explore(ctx, race_factory,
                         {'ops': [list(ops[i]), list(ops[j])]}, bound,
                         label='race ')
        execs += res.execs
    ctx.cls('comparisons by two threads, all schedules')
    ctx.extra['concurrent'] = {
        'operations': [op_text(o) for o in ops], 'pairs': len(pairs),
        'preemption_bound': bound, 'schedules_executed': execs,
        'points': 'every source line of ' + ', '.join(RACE_MODULES)}


# -- entry points -------------------------------------------------------------

def run(ctx):
    use_repo()
    ex = explore.Explorer(memo=False)    # forks its workers before anything runs
    try:
        _run(ctx)
        if not ctx.violations:
            run_races(ctx, ex)
    finally:
        ex.close()


def _run(ctx):
    e = env()
    try:
        a, b, c = first_ranks(e.base[0])
        if (a, b, c) != first_ranks_fast(e.base[0]):
            raise ToolError('first_ranks_fast disagrees with first_ranks')
        for s, want in (('1.16.5', True), ('1.7', True), ('1', False),
                        ('1.', False), ('.1', False), ('1.16-pre1', False),
                        ('20w45a', False), ('1..2', False), ('1.2\n', False),
                        ('1.16.4-rc1', False), ('10.0.0.1', True)):
            if is_release(s) != want:
                raise ToolError('is_release(%r) selftest' % s)
        base_fails = part_a(ctx, e)
        e.restore(e.base)
        if base_fails:
            ctx.extra['histories_skipped'] = ('the tables left by import are '
                                              'already wrong')
        else:
            part_b(ctx, e)
    finally:
        e.restore(e.base)
    ctx.extra.pop('succ', None)


def replay(ctx, case):
    if 'choices' in case:
        use_repo()
        ctx.count()
        x = race_factory(case['params'])(list(case['choices']), None, None,
                                         'replay')
        res = x.result or {}
        viol = list(res.get('violations', ()))
        if x.failure is not None:
            viol.append((x.failure[0], '%s: %s' % x.failure))
        for key, what in viol:
            ctx.violation('race %s' % key, what, case)
        return
    e = env()
    try:
        records = e.base[0]
        K, rank, _ = first_ranks(records)
        op = case['op']
        ctx.count()
        if op == 'base-tables':
            check_base_tables(ctx, e)
        elif op == 'records-order':
            check_records_order(ctx, records)
        elif op == 'placement':
            if case['protocol'] in rank:
                check_placement(ctx, e, records, rank, case['protocol'])
        elif op == 'pair':
            a, b = case['a'], case['b']
            if a in rank and b in rank:
                n = check_pair(ctx, e, rank, a, b)
                if not n:
                    # axiom-type failures: recompute on the two pairs
                    ab, ba = pair_observe(e, a, b), pair_observe(e, b, a)
                    eq = a == b
                    ok = (not any(isinstance(g, str) for g in ab + ba)
                          and bool(ab[2]) == bool(ba[0])
                          and not (ab[0] and ba[0])
                          and (eq or ab[0] or ba[0]) and not (eq and ab[0])
                          and bool(ab[1]) == bool(ab[0] or eq)
                          and bool(ab[3]) == bool(ab[2] or eq))
                    if not ok:
                        ctx.violation('axiom pair %s %s' % (fmt(a), fmt(b)),
                                      'order axioms fail on (%s, %s): %r / %r'
                                      % (fmt(a), fmt(b), ab, ba), case)
        elif op == 'reuse':
            if all(case[k] in rank for k in ('prev', 'a', 'b')):
                check_reused(ctx, e, rank, case['prev'], case['a'],
                             case['b'])
        elif op == 'reuse-walk':
            if case['a'] in rank and case['b'] in rank:
                walk_reused(ctx, e, K, rank, case['a'], case['b'])
        elif op == 'inrange':
            if all(case[k] in rank for k in ('v', 'start', 'end')):
                report_inrange(ctx, e, rank, case['v'], case['start'],
                               case['end'])
        elif op == 'trans':
            if all(case[k] in rank for k in 'abc'):
                report_trans(ctx, e, case['pred'], case['a'], case['b'],
                             case['c'])
        elif op == 'history':
            P = plan(ctx.seed)
            if 'seed_dup' in case:       # recorded under another seed
                P.seed_dup = case['seed_dup']
            resync(e)
            hist = ()
            prefix = [e.base]
            for a in case['actions']:
                ctx.transitions += 1
                step(ctx, e, P, hist, a, prefix=list(prefix))
                hist += (a,)
                prefix.append(e.snapshot())
        elif op == 'task':
            P = plan(ctx.seed)
            if 'seed_dup' in case:
                P.seed_dup = case['seed_dup']
            w_expand(ctx, ([tuple(h) for h in case['hists']],
                           case.get('mode', case['last'])),
                     confirming=False)
            ctx.extra.pop('succ', None)
        else:
            raise ToolError('unknown replay op %r' % op)
    finally:
        e.restore(e.base)
