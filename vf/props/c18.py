"""C18 - encrypted channel is AES-128-CFB8 keyed by the secret; secrets reach
the server.

Part A (stream cipher).  The two wrappers are created exactly as
LoginReactor.react installs them (one cipher, one encryptor, ONE decryptor
shared by the socket wrapper and the file wrapper) over a scripted raw socket
and raw file that draw from one incoming byte queue.  Every composition of
the outgoing stream into send() calls, every composition of the incoming
stream into read()/recv() calls and every interleaving of the two call
sequences is executed; the oracle is vf.refproto.cfb8.CFB8 (hand-built shift
register over single-block AES, key = IV = secret), run once over the whole
stream of each direction.  Part A-seg does the same for the receive
direction when the raw object UNDER the wrappers returns short reads (the
ciphertext arrives in segments): every segmentation of the ciphertext x every
split of the caller's requests.

Part A-retain: the same histories over a raw socket stand-in that KEEPS the
objects it is handed by send() and looks at them only at the end of the
scenario (a buffering socket-like object), next to the one that copies at
once.  Part A-fault (environment faults under the wrappers): the k-th raw
send() / recv() / read() raises InterruptedError / BlockingIOError /
BrokenPipeError, for every k of every small multi-call history.  Part A-conc
(schedules): ONE wrapper pair, one agent sends, a second agent receives, every
source line of encryption.py and the raw stand-in's own calls are scheduling
points, all schedules within a preemption bound (vf.interleave).

Part B (key exchange).  encrypt_token_and_secret under a 1024- and a 2048-bit
key: the key holder decrypts with PKCS#1 v1.5 and must recover token and
secret exactly.  Part B-conc (schedules): two agents call it at the same time
(two logins of one process, same server key or two different ones), after a
sequential history, followed by one more call per key on its own; every
result must decrypt under the right key.

Part C (seam for "fresh random bytes").  Real logins through the connection
harness against vf.refserver.RefServer: the secret the server decrypts in the
j-th login is the j-th 16-byte draw of the scripted OS source, one draw per
login, and all traffic after the encryption response decrypts under it -
also when a packet is waiting in the outgoing queue while the encryption
request is handled (the response must still leave in the clear, RSA only),
and also when the received stream is read through BOTH wrappers that
LoginReactor installed (connection.socket.recv mixed with
connection.file_object.read: one continuous CFB8 stream).  C-hist: HISTORIES
of logins on one Connection object (logins that reach play, logins the server
ends in the login state before or after the encryption response, reconnects
made by the driver or by the exception handler): every login's secret is the
draw made in that login, all pairwise distinct.  C-seg: the same end to end
with vnet's read segmentation, so that encrypted packet bodies reach the
client in two or more short reads.
"""
import errno
import hashlib
import itertools
import os
import warnings

from vf import explore, interleave
from vf.runner import use_repo, jsonable, ToolError
from vf.refproto.cfb8 import CFB8

LEVEL = 'exploration'
RULE = (
    'A-full: 4 secrets (00*16, ff*16, 00..0f, one seed-derived) x 2 content '
    'pairs (out=counter/in=seed-derived, out=zeros/in=ff; only the first '
    'pair when a stream has 7 bytes) x every pair of '
    'stream lengths (m out, n in) in 0..6 (quick) / 0..7 (thorough), not both '
    '0, x ALL compositions of the out stream into send calls x ALL '
    'compositions of the in stream into receive calls x ALL interleavings of '
    'the two call sequences x 3 receive styles (all file.read, all '
    'socket.recv, alternating read/recv on the shared decryptor).  '
    'A-long: m = n = L for L = 7..10 (quick) / 8..12 (thorough), ALL '
    'compositions of out x ALL compositions of in with one fixed strictly '
    'alternating interleaving (out call, in call, ...; receive style '
    'alternating read/recv), 4 secrets, content pair 1 (quick: both pairs up '
    'to L = 8; thorough: both pairs up to L = 10).  '
    'A-empty: lengths 1..5, every composition with one empty call inserted at '
    'every position (send(b""), read(0)/recv(0)), a receive call that asks '
    'for 3 bytes more than the raw file has left, and a receive call at end '
    'of stream.  '
    'A-KiB: streams of 1024 and 4096 bytes, every 1-cut partition (quick: '
    'every cut of 1 KiB, every 3rd of 4 KiB; thorough: every cut) and 2-cut '
    'partitions with both cuts on a grid (quick: stride 53 / 211; thorough: '
    'stride 7 / 29, plus the offsets 1,2,15,16,17,31,32,33), the in stream '
    'cut at the mirrored offsets, 4 secrets.  '
    'A-seg (the raw object under the wrappers returns SHORT reads: one raw '
    'read/recv hands out at most the rest of the current segment): in '
    'stream of n = 1..8 (quick) / 1..9 (thorough) bytes, 4 secrets x 2 '
    'contents (seed-derived, ff; only the first above n = 6 / 8) x ALL '
    'compositions of the ciphertext into segments x ALL compositions of n '
    'into caller requests x 3 receive styles (all file.read, all '
    'socket.recv, alternating per call); the caller repeats a request for '
    'the missing rest until it is filled or a call returns nothing (as '
    'PacketReactor.read_packet does); plus, for n = 1..5 (thorough 1..6), '
    'the same with the last request asking for 3 bytes more than the stream '
    'has.  Oracle: no call returns more than asked, every returned chunk '
    'continues the reference CFB8 decryption of the whole ciphertext (so the '
    'concatenation equals it), nothing is lost before the stream ends; how '
    'many raw reads a wrapper call makes is NOT judged.  '
    'A-seg-KiB: 1024 and 4096 bytes, every 2-segment split (quick: every '
    '3rd of 4 KiB) and the 3-segment splits on the KiB grid, requests '
    'cycling through {whole, (1,1,rest), (2,rest), (size-1,1)}, and '
    'equal segments of 1, 16, 17, 536, 1460 bytes x those four request '
    'patterns and requests of segment size + 1; receive style cycles.  '
    'A-retain (the raw socket under the wrappers KEEPS the very objects it '
    'is handed by send() and they are read as bytes when the history is '
    'over - a buffering socket-like object - instead of being copied at the '
    'time of the call): the A-full product again (4 secrets x 2 content '
    'pairs x ALL compositions x ALL interleavings x 3 receive styles) for '
    'm = 1..4, n = 0..4 (thorough 1..5 / 0..5); in A-KiB every case whose '
    'index has bit 1 set runs over the keeping socket.  '
    'A-fault (environment faults under the wrappers): m, n = 0..5 (thorough '
    '0..6), not both 0, 4 secrets, content pair 1, ALL compositions of out x '
    'ALL compositions of in, strictly alternating interleaving, receive '
    'style alternating read/recv, x EVERY raw call of the history as the one '
    'that fails (k-th raw socket.send, k-th raw socket.recv, k-th raw '
    'file.read; one-shot, raised before a byte is accepted / handed out) x '
    '{InterruptedError(EINTR), BlockingIOError(EAGAIN), '
    'BrokenPipeError(EPIPE)}.  The caller stops the history when a send() '
    'raises, repeats a receive call once that raised InterruptedError / '
    'BlockingIOError, stops when a receive call raised BrokenPipeError.  '
    'Oracle: EITHER the error reaches the caller - then the wire holds the '
    'reference CFB8 stream of the sends that completed (plus at most a '
    'prefix of the ciphertext of the failed one) - OR no error is reported - '
    'then the whole out stream must be on the wire as one CFB8 stream; every '
    'chunk a receive call returns is the reference decryption of the '
    'ciphertext the raw object handed out for it; an exception out of a '
    'wrapper call during which no raw call failed is a violation.  Which of '
    'the two a wrapper does (report or retry) is NOT judged.  '
    'A-conc (schedules, vf.interleave): ONE wrapper pair installed as '
    'LoginReactor does over a raw socket/file stand-in; agent 0 sends the '
    'out stream piece by piece, agent 1 receives the in stream call by call; '
    'scheduling points: every source line of every function of '
    'minecraft.networking.encryption and the entry of every raw send / recv '
    '/ read (the call has been made, the raw object has not yet consumed its '
    'argument / produced its result).  Shapes (how a direction is cut into '
    'calls) quick: {(2), (1,2), (1,1,1)} for out x the same for in x '
    'receiver {all socket.recv, all file.read}, secret 00..0f; thorough: all '
    'compositions of 1..3 and (2,2), (1,2,1) for out x the same for in x '
    '{recv, read, alternating}, plus the other 3 secrets on the shape (1,2) x '
    '(2,1); plus the shape (1,2) x (2,1) over the keeping raw socket.  ALL '
    'schedules with <= 2 preemptions (thorough: <= 3 when both directions '
    'have at most 2 calls).  Oracle per schedule: wire == reference CFB8 of '
    'the out stream, every received chunk == reference decryption of the '
    'ciphertext bytes that call consumed, no exception.  '
    'B: every token length 1..64 x {zeros, ff, counter} x 4 secrets x '
    '{1024, 2048}-bit key.  '
    'B-conc (schedules): a history of encrypt_token_and_secret calls in one '
    'process that starts from freshly loaded module state: `pre` calls one '
    'at a time (none, one under the 1024-bit key, one under the 2048-bit '
    'key), then TWO agents call it at the same time under keys (1024, 2048) '
    'or (1024, 1024) (thorough also (2048, 1024), (2048, 2048)), then one '
    'call per key on its own in both orders ((1024, 2048) and (2048, 1024)); '
    'every call has its own token (1..64 bytes) and secret; line points as '
    'in A-conc; ALL schedules with <= 2 (thorough 3) preemptions.  Oracle: '
    'EVERY result of the history - before, during and after the overlap - '
    'decrypts under the private key of the server it was made for to '
    'exactly (token, secret).  '
    'C: k = 1..3 consecutive logins x {same Connection object, separate '
    'Connection objects} x protocol versions {47, 340, 578, 757} x 4 verify '
    'tokens (1, 4, 16, 64 bytes), keep-alives and chat after each login; '
    'C-queued: a non-forced packet is waiting in the outgoing queue when '
    'the encryption request is handled - {server sends login plugin request '
    '+ encryption request in one burst, early listener on the encryption '
    'request queues a packet} x k = 1..2 x protocols {498, 578, 754, 757} x '
    '2 tokens (same oracle: the key holder recovers the fresh draw and the '
    'token, everything after the response decodes); C-installed: after a '
    'login (k = 1..2, protocols {47, 340, 757}) with the client quiescent, '
    'the server pushes L = 1..6 non-frame bytes encrypted on its running '
    'CFB8 stream and the driver reads them through the wrappers the library '
    'itself installed, ALL compositions of L into calls x both phases of '
    'strict connection.socket.recv / connection.file_object.read '
    'alternation, then keep-alive frames must still be echoed by the '
    'networking thread.  '
    'C-hist: histories of logins on ONE Connection object; a login ends in '
    'one of 5 ways: play (encryption, success, keep-alives / chat both ways / '
    'one position-and-look, client disconnects), kick (encryption, then an '
    'encrypted login Disconnect right after the encryption response), drop '
    '(encryption, then the server closes), junk (encryption, then 33 '
    'non-CFB8 bytes and close), early (login Disconnect as first packet, no '
    'encryption request).  ALL histories of length 1..3 (thorough 1..4) over '
    'the 5 endings at protocol 757 (4-byte token), all of length 2 '
    '(thorough 3) at 47 (64-byte token) and 340 (1-byte token), the next '
    'connect() made by the driver once the client is quiet; plus reconnects '
    'made by the exception handler handed to Connection (from the '
    'networking thread): all (failing, any) pairs and all (failing, failing, '
    'play) triples (thorough: (failing, failing, any)) at 757.  Judged per '
    'login that got an encryption request: the secret the key holder '
    'recovers is the ONE 16-byte draw encryption.os.urandom handed out '
    'between that login\'s connect() and the next, the token comes back '
    'exactly, everything the client sends afterwards decodes under '
    'CFB8(secret), for play endings the echoes (keep-alive ids, teleport id '
    'or position, chat) are exact; over the history all secrets are pairwise '
    'distinct.  A login without encryption request is not judged.  '
    'C-seg: the same through vnet with a read segmentation policy for the '
    'server->client stream: {segments of 1, 2, 3, 5, 7, 16, 33 bytes that a '
    'read never crosses, at most 2 / 4 / 8 bytes per read, half of what '
    'could be returned} x protocols {47, 340, 757} x histories {play, play > '
    'play}, and x {kick > play, junk > play} at 757 with a 64-byte token; '
    'the 311-character chat message, the position-and-look and the '
    'keep-alives then arrive in 2+ short reads (counted; guard).  '
    'Cases are enumerated without repetition (distinct by construction); a '
    'part-A case is non-trivial when at least one direction is split into two '
    'or more calls, an A-seg case when at least one raw read was short, '
    'every A-fault, B and C case and every schedule is non-trivial.')
ASSUMPTIONS = [
    'single-block AES (ECB of one 16-byte block) of the cryptography package '
    'is correct; the CFB8 mode logic of the oracle is hand-built and checked '
    'against NIST SP 800-38A F.3.7',
    'RSA PKCS#1 v1.5 decryption of the cryptography package stands for the '
    'key holder',
    'randomness QUALITY of os.urandom is out of scope: only the seam is '
    'decided (exactly one fresh 16-byte draw from the OS source, reached as '
    'encryption.os.urandom, per login, used as AES key and as IV)',
    'in A-full / A-long / A-empty / A-KiB the raw transport under the '
    'wrappers hands out exactly min(n, available) bytes per read/recv; in '
    'A-seg it hands out min(n, rest of the current segment) (never nothing '
    'before the end of the stream, never more than asked); every send is '
    'accepted completely (A-fault: except the one raw call that raises; it '
    'raises before it accepts or hands out a single byte, and the '
    'exceptions are built as the OS builds them, OSError(errno, text))',
    'A-retain: a socket-like object may look at the object it was handed by '
    'send() after send() has returned (a real socket copies during the '
    'call); the wrappers are documented to take any socket-like object',
    'A-fault: after a send() of the wrapper raised, the caller gives the '
    'channel up (what a retry by the CALLER would put on the wire is not '
    'judged); a receive call that raised a transient error is repeated by '
    'the caller, and since the raw object had not handed out anything the '
    'stream simply continues',
    'A-conc / B-conc: threads switch only at the scheduling points (source '
    'lines of encryption.py, entry of the raw calls); a switch inside one '
    'source line or inside the cryptography package is not explored; one '
    'sender and one receiver (pyCraft has one writer at a time under its '
    'write lock and one reader); preemption-bounded, not all schedules',
    'B-conc: the module state of a fresh process is produced by executing '
    'the module body of encryption.py again (importlib.reload) before every '
    'execution; state kept elsewhere (other modules, the cryptography '
    'backend) is carried over between executions of one worker',
    'A-seg judges the receive direction alone (no sends interleaved); '
    'independence of the directions under exact raw reads is A-full',
    'C-hist: a login is the span from one connect() call to the next; the '
    'exception handler given as handle_exception keeps the process quiet '
    'and, in the handler variant, calls connect() itself (documented use)',
    'C-seg: vnet decides how many bytes one raw read returns; the policies '
    'are deterministic functions of the stream offset / request, not all '
    'segmentations of the login byte stream',
    'stream contents are structured (zeros, ff, counter, seed-derived), not '
    'all 256^n byte strings',
    'connection.socket and connection.file_object read the same unbuffered '
    'byte stream (pyCraft opens the file with makefile("rb", 0)), so reads '
    'through the two installed wrappers may be mixed; vnet models exactly '
    'that',
    'in the C-queued scenarios the packet that waited in the queue reaches '
    'the reference server after it has entered play; what it decodes to '
    'there is not judged',
]

SIZES_KIB = (1024, 4096)
VERSIONS_C = (47, 340, 578, 757)
# login plugin channel exists (>= 385) and the id of the login plugin response
# is not the id of a play packet the reference server decodes strictly (the
# queued packet arrives when the server is already in play; at 385..404 it
# would be read as a chat message)
VERSIONS_Q = (498, 578, 754, 757)
VERSIONS_RAW = (47, 340, 757)
RAW_MAX = 6
TOKENS_C = (b'\x00', b'\x05\x06\x07\x08', bytes(range(0xF0, 0x100)),
            bytes((i * 37 + 11) & 0xFF for i in range(64)))
CHATS = ('a', 'hello world', 'x' * 100, 'y' * 64)


# -- alphabets ----------------------------------------------------------------

def _h(tag, n):
    out = b''
    k = 0
    while len(out) < n:
        out += hashlib.blake2b(b'%s %d' % (tag, k), digest_size=64).digest()
        k += 1
    return out[:n]


def secrets_for(seed):
    return [('zero', bytes(16)), ('ones', b'\xff' * 16),
            ('counter', bytes(range(16))),
            ('seeded', _h(b'c18 secret %d' % seed, 16))]


def content(name, n, seed):
    if name == 'zeros':
        return bytes(n)
    if name == 'ff':
        return b'\xff' * n
    if name == 'counter':
        return bytes(i & 0xFF for i in range(n))
    if name == 'seeded':
        return _h(b'c18 stream %d' % seed, n)
    raise ValueError(name)


PAIRS = (('counter', 'seeded'), ('zeros', 'ff'))


def compositions(n):
    """All ordered ways to write n as a sum of positive parts (2^(n-1))."""
    if n == 0:
        yield ()
        return
    for mask in range(1 << (n - 1)):
        parts, run = [], 1
        for i in range(n - 1):
            if mask >> i & 1:
                parts.append(run)
                run = 1
            else:
                run += 1
        parts.append(run)
        yield tuple(parts)


def label(parts, style):
    """receive calls (kind, n): 'r' = file.read, 'v' = socket.recv."""
    if style == 'r':
        return tuple(('r', p) for p in parts)
    if style == 'v':
        return tuple(('v', p) for p in parts)
    return tuple(('rv'[i & 1], p) for i, p in enumerate(parts))   # 'x'


def alternating(a, b):
    """out, in, out, in, ... then the tail of the longer sequence."""
    order = []
    for i in range(max(a, b)):
        if i < a:
            order.append(1)
        if i < b:
            order.append(0)
    return tuple(order)


# -- scripted raw transport ---------------------------------------------------

class _Stream(object):
    __slots__ = ('buf', 'pos')

    def __init__(self, buf):
        self.buf, self.pos = buf, 0

    def take(self, n):
        p = self.pos
        out = self.buf[p:p + n]
        self.pos = p + len(out)
        return out


class _RawSock(object):
    def __init__(self, stream):
        self.stream, self.sent = stream, []

    def send(self, data):
        self.sent.append(bytes(data))
        return len(data)

    def recv(self, n):
        return self.stream.take(n)


class _RawFile(object):
    def __init__(self, stream):
        self.stream = stream

    def read(self, n):
        return self.stream.take(n)


class _KeepSock(_RawSock):
    """Buffering socket-like object: send() KEEPS the very object it was
    handed; the bytes are looked at when the scenario is over (wire())."""

    def send(self, data):
        self.sent.append(data)
        return len(data)


def wire_of(rs):
    return b''.join(bytes(x) for x in rs.sent)


# environment faults: what the k-th raw call raises (built like the OS does)
FAULTS = (('InterruptedError', errno.EINTR), ('BlockingIOError', errno.EAGAIN),
          ('BrokenPipeError', errno.EPIPE))
TRANSIENT = ('InterruptedError', 'BlockingIOError')
WHERE_TEXT = {'send': 'raw socket.send', 'recv': 'raw socket.recv',
              'read': 'raw file.read'}


class _Fault(object):
    """One-shot: the k-th (1-based) raw call of kind `where` raises, before
    it accepts or hands out a single byte; every other call works."""

    def __init__(self, where, k, name):
        self.where, self.k, self.name = where, k, name
        self.n = 0
        self.fired = False
        err = dict(FAULTS)[name]
        self.exc = OSError(err, os.strerror(err))
        if type(self.exc).__name__ != name:
            raise ToolError('OSError(%d) is a %s, not %s'
                            % (err, type(self.exc).__name__, name))

    def hit(self, where):
        if where == self.where:
            self.n += 1
            if self.n == self.k:
                self.fired = True
                raise self.exc


class _FaultSock(object):
    def __init__(self, stream, fault, retain=False):
        self.stream, self.sent = stream, []
        self.fault, self.retain = fault, retain

    def send(self, data):
        self.fault.hit('send')
        self.sent.append(data if self.retain else bytes(data))
        return len(data)

    def recv(self, n):
        self.fault.hit('recv')
        return self.stream.take(n)


class _FaultFile(object):
    def __init__(self, stream, fault):
        self.stream, self.fault = stream, fault

    def read(self, n):
        self.fault.hit('read')
        return self.stream.take(n)


_ENV = {}


def env():
    if not _ENV:
        use_repo()
        warnings.filterwarnings(
            'ignore', message='.* has been moved to cryptography.*')
        from minecraft.networking import encryption as E
        _ENV['E'] = E
    return _ENV['E']


def install(E, secret, raw_sock, raw_file):
    """The five lines of LoginReactor.react (connection.py 749-756)."""
    cipher = E.create_AES_cipher(secret)
    encryptor = cipher.encryptor()
    decryptor = cipher.decryptor()
    sock = E.EncryptedSocketWrapper(raw_sock, encryptor, decryptor)
    fobj = E.EncryptedFileObjectWrapper(raw_file, decryptor)
    return sock, fobj


_REF = {}


def ref_enc(secret, plain):
    """Reference ciphertext of a whole stream (one continuous CFB8 run)."""
    k = (secret, plain)
    c = _REF.get(k)
    if c is None:
        if len(_REF) > 4096:
            _REF.clear()
        c = _REF[k] = CFB8(secret).encrypt(plain)
    return c


def exec_case(E, secret, out_plain, in_plain, out_parts, in_calls, order,
              retain=False):
    """Run one history on the real wrappers.  -> None or (kind, text).
    retain: the raw socket keeps the objects handed to send() and they are
    read at the end of the history, not at the time of the call."""
    want_wire = ref_enc(secret, out_plain)
    stream = _Stream(ref_enc(secret, in_plain))
    rs = _KeepSock(stream) if retain else _RawSock(stream)
    try:
        sock, fobj = install(E, secret, rs, _RawFile(stream))
        op = oi = ic = 0
        bad_in = None
        for d in order:
            if d:
                k = out_parts[oi]
                oi += 1
                sock.send(out_plain[op:op + k])
                op += k
            else:
                kind, n = in_calls[ic]
                p0 = stream.pos
                got = fobj.read(n) if kind == 'r' else sock.recv(n)
                if got != in_plain[p0:stream.pos] and bad_in is None:
                    bad_in = (ic, kind, n, p0, stream.pos, got)
                ic += 1
    except Exception as e:
        return ('exception', 'the wrappers raised %s: %s'
                % (type(e).__name__, e))
    try:
        wire = wire_of(rs) if retain else b''.join(rs.sent)
    except Exception as e:
        return ('out', 'what the wrapper handed to the raw socket cannot be '
                'read as bytes afterwards: %s: %s' % (type(e).__name__, e))
    if wire != want_wire:
        return ('out', _wire_text(secret, wire, want_wire) + (
            ' (the raw socket kept the objects it was handed by send() and '
            'read them when the history was over)' if retain else ''))
    if bad_in is not None:
        return _bad_in_text(bad_in, in_plain)
    return None


def _wire_text(secret, wire, want_wire):
    first = next((i for i, (x, y) in enumerate(zip(wire, want_wire))
                  if x != y), min(len(wire), len(want_wire)))
    back = '(not computed)'
    if len(wire) <= 64:
        back = CFB8(secret).decrypt(wire).hex()
    return ('bytes handed to the raw socket are not the CFB8 '
            'encryption (key = IV = secret) of the plaintext as one '
            'stream: sent %s, expected %s (first difference at stream '
            'offset %d, %d of %d bytes); the independent CFB8 decrypts '
            'the wire bytes to %s'
            % (wire[:24].hex(), want_wire[:24].hex(), first, len(wire),
               len(want_wire), back))


def _bad_in_text(bad_in, in_plain):
    i, kind, n, p0, p1, got = bad_in
    return ('in.' + {'r': 'read', 'v': 'recv'}[kind],
            'receive call #%d (%s(%d)) consumed reference ciphertext '
            'bytes %d..%d and returned %s, expected plaintext %s'
            % (i, 'file.read' if kind == 'r' else 'socket.recv', n, p0,
               p1, _short(got), in_plain[p0:p1][:24].hex()))


def exec_fault(E, secret, out_plain, in_plain, out_parts, in_calls, order,
               fault):
    """One history with ONE environment fault under the wrappers (fault =
    (where, k, exception name): the k-th raw send / recv / read raises).
    The caller stops the whole history when a send() fails or a receive call
    fails with a non-transient error; it repeats a receive call once that
    failed with InterruptedError / BlockingIOError.
    -> (None | (kind, text), info) with info = {'fired', 'reported'}."""
    where, k, name = fault
    flt = _Fault(where, k, name)
    want_wire = ref_enc(secret, out_plain)
    stream = _Stream(ref_enc(secret, in_plain))
    rs = _FaultSock(stream, flt)
    info = {'fired': False, 'reported': False}
    what = 'the %s raw %s() call raised %s' % (_nth(k), where, name)
    op = oi = ic = 0
    bad_in = None
    failed_send = None          # (piece index, lo, hi) of the send that raised
    stopped = False
    try:
        sock, fobj = install(E, secret, rs, _FaultFile(stream, flt))
    except Exception as e:
        return ('exception', 'installing the wrappers raised %s: %s'
                % (type(e).__name__, e)), info
    for d in order:
        if d:
            n = out_parts[oi]
            was = flt.fired
            try:
                sock.send(out_plain[op:op + n])
            except Exception as e:
                if was or not flt.fired:
                    return ('exception', 'send #%d raised %s: %s although '
                            'the raw socket accepted everything'
                            % (oi, type(e).__name__, e)), info
                info['reported'] = True
                failed_send = (oi, op, op + n)
                stopped = True
                break
            oi += 1
            op += n
        else:
            kind, n = in_calls[ic]
            for attempt in (0, 1):
                p0 = stream.pos
                was = flt.fired
                try:
                    got = fobj.read(n) if kind == 'r' else sock.recv(n)
                except Exception as e:
                    if was or not flt.fired:
                        return ('exception', 'receive call #%d raised %s: %s '
                                'although the raw object did not fail'
                                % (ic, type(e).__name__, e)), info
                    info['reported'] = True
                    if name in TRANSIENT and attempt == 0:
                        continue            # the caller tries again
                    stopped = True
                    break
                if got != in_plain[p0:stream.pos] and bad_in is None:
                    bad_in = (ic, kind, n, p0, stream.pos, got)
                break
            if stopped:
                break
            ic += 1
    info['fired'] = flt.fired
    wire = wire_of(rs)
    if failed_send is not None:
        i, lo, hi = failed_send
        if not (lo <= len(wire) <= hi and wire == want_wire[:len(wire)]):
            return ('out after a reported error', '%s and send #%d (plaintext '
                    'bytes %d..%d) raised it to the caller, who stopped; the '
                    'wire must then hold the CFB8 stream of the %d bytes of '
                    'the sends that completed (and at most a part of the '
                    'failed one), but: %s'
                    % (what, i, lo, hi, lo,
                       _wire_text(secret, wire, want_wire[:max(lo, min(
                           len(wire), hi))]))), info
    else:
        want = want_wire[:op] if stopped else want_wire
        if wire != want:
            if flt.fired and where == 'send' and not info['reported']:
                return ('out: no error and a corrupted stream', '%s, NO '
                        'error reached the caller of the wrapper, and %s'
                        % (what, _wire_text(secret, wire, want))), info
            return ('out', '%s (%s); %s' % (
                what, 'reported to the caller' if info['reported'] else
                'fired' if flt.fired else 'never reached',
                _wire_text(secret, wire, want))), info
    if bad_in is not None:
        kind, text = _bad_in_text(bad_in, in_plain)
        return (kind, '%s (%s); %s' % (
            what, 'the error reached the caller, who repeated the call'
            if info['reported'] else 'no error reached the caller', text)), \
            info
    return None, info


def _nth(k):
    return '%d%s' % (k, {1: 'st', 2: 'nd', 3: 'rd'}.get(k, 'th'))


def _short(x):
    if isinstance(x, (bytes, bytearray)):
        return bytes(x[:24]).hex() + ('...' if len(x) > 24 else '') + \
            ' (%d bytes)' % len(x)
    return repr(x)[:80]


# -- violation collection (deterministic choice of the recorded case) ---------

class _Coll(object):
    """Per task: keep the smallest failing case per key, count the rest."""

    def __init__(self):
        self.best, self.n = {}, {}

    def add(self, key, rank, what, case):
        self.n[key] = self.n.get(key, 0) + 1
        cur = self.best.get(key)
        if cur is None or rank < cur[0]:
            self.best[key] = (rank, what, case)

    def flush(self, ctx):
        for key, (rank, what, case) in self.best.items():
            ctx.violation(key, what, case)
            ctx.violations[key]['n'] = self.n[key]
            ctx.extra.setdefault('_best', []).append(
                [key, list(rank), what, jsonable(case)])


def _settle_violations(ctx):
    """After all pmaps: record, per key, the smallest case over all tasks
    (arrival order of worker results must not matter)."""
    best = {}
    for key, rank, what, case in ctx.extra.pop('_best', []):
        rank = tuple(rank)
        if key not in best or (rank, what) < best[key][:2]:
            best[key] = (rank, what, case)
    for key, (rank, what, case) in best.items():
        if key in ctx.violations:
            ctx.violations[key]['what'] = str(what)[:2000]
            ctx.violations[key]['case'] = case


def _case_a(tag, sname, secret, out_plain, in_plain, out_parts, in_calls,
            order, retain=False, fault=None):
    case = {'part': 'A', 'tag': tag, 'secret_name': sname, 'secret': secret,
            'out_plain': out_plain, 'in_plain': in_plain,
            'out_parts': list(out_parts),
            'in_calls': [[k, n] for k, n in in_calls],
            'order': list(order)}
    if retain:
        case['retain'] = 1
    if fault is not None:
        case['fault'] = list(fault)
    return case


def _judge_a(coll, tag, E, sname, secret, out_plain, in_plain, out_parts,
             in_calls, order, retain=False, fault=None, info=None):
    if fault is None:
        res = exec_case(E, secret, out_plain, in_plain, out_parts, in_calls,
                        order, retain)
    else:
        res, inf = exec_fault(E, secret, out_plain, in_plain, out_parts,
                              in_calls, order, fault)
        if info is not None:
            info.update(inf)
    if res is None:
        return True
    kind, text = res
    rank = (len(out_plain) + len(in_plain), len(order), sname,
            list(out_parts), [list(c) for c in in_calls], list(order),
            list(fault or ()))
    coll.add('A.%s %s' % (tag, kind), rank,
             'secret %s (%s), out stream %s split %r, in stream %s received '
             'as %r, call order %s (1 = send, 0 = receive)%s: %s'
             % (sname, secret.hex(), out_plain[:24].hex(), list(out_parts),
                in_plain[:24].hex(), ['%s%d' % c for c in in_calls],
                ''.join(map(str, order))[:80],
                '' if fault is None else ', environment fault: the %s %s '
                'call raises %s' % (_nth(fault[1]), WHERE_TEXT[fault[0]],
                                    fault[2]), text),
             _case_a(tag, sname, secret, out_plain, in_plain, out_parts,
                     in_calls, order, retain, fault))
    return False


# -- part A workers -----------------------------------------------------------

def _split_classes(cls, parts, who, mult):
    if not parts:
        cls['A %s: no calls' % who] += mult
    elif len(parts) == 1:
        cls['A %s: one call for the whole stream' % who] += mult
    else:
        if 1 in parts:
            cls['A %s: split containing a 1-byte call' % who] += mult
        if max(parts) == 1:
            cls['A %s: every call 1 byte' % who] += mult
        if min(parts) > 1:
            cls['A %s: split with every call >= 2 bytes' % who] += mult


def w_full(ctx, task):
    """ALL compositions x ALL interleavings for one (secret, pair, m, n)."""
    import collections
    si, pi, m, n, styles = task[:5]
    retain = len(task) > 5 and bool(task[5])
    tag = 'full-retain' if retain else 'full'
    E = env()
    sname, secret = secrets_for(ctx.seed)[si]
    out_plain = content(PAIRS[pi][0], m, ctx.seed)
    in_plain = content(PAIRS[pi][1], n, ctx.seed)
    coll = _Coll()
    cls = collections.Counter()
    ncase = nontriv = 0
    comps_in = list(compositions(n))
    for co in compositions(m):
        a = len(co)
        for ci in comps_in:
            b = len(ci)
            orders = []
            for pos in itertools.combinations(range(a + b), a):
                o = [0] * (a + b)
                for p in pos:
                    o[p] = 1
                orders.append(tuple(o))
            nord = len(orders)
            alt = sum(1 for o in orders
                      if all(o[i] != o[i + 1] for i in range(len(o) - 1)))
            for style in styles:
                calls = label(ci, style)
                for o in orders:
                    _judge_a(coll, tag, E, sname, secret, out_plain,
                             in_plain, co, calls, o, retain)
                ncase += nord
                if retain:
                    cls[RETAIN] += nord
                    if a > 1 or (a and b):
                        cls[RETAIN_LATER] += nord
                if a > 1 or b > 1:
                    nontriv += nord
                cls['A in: all file.read' if style == 'r' else
                    'A in: all socket.recv' if style == 'v' else
                    'A in: read and recv alternate on the shared decryptor'
                    ] += nord if b else 0
                _split_classes(cls, co, 'out', nord)
                _split_classes(cls, ci, 'in', nord)
                if a and b:
                    cls['A interleaving: directions alternate every call'] \
                        += alt if a + b >= 3 else 0
                    cls['A interleaving: both directions active'] += nord
                    cls['A interleaving: all sends first'] += 1
                    cls['A interleaving: all receives first'] += 1
                else:
                    cls['A interleaving: one direction only'] += nord
    ctx.count(ncase)
    ctx.note_distinct(nontriv)
    for k, v in cls.items():
        if v:
            ctx.cls(k, v)
    ctx.outcome('A-full ok', ncase - sum(coll.n.values()))
    for k, v in coll.n.items():
        ctx.outcome('A-full FAIL ' + k, v)
    coll.flush(ctx)
    if (si, pi, m, n) == (2, 0, 3, 3) and len(styles) == 3 and not retain:
        ctx.sample({'part': 'A-full', 'secret': secret, 'out_plain':
                    out_plain, 'in_plain': in_plain, 'wire': ref_enc(
                        secret, out_plain), 'compositions_out': 4,
                    'compositions_in': 4, 'cases': ncase})


def w_long(ctx, task):
    """ALL compositions of both directions, fixed alternating interleaving;
    the out compositions are sharded (shard s of S)."""
    import collections
    si, pi, L, shard, nshard = task
    E = env()
    sname, secret = secrets_for(ctx.seed)[si]
    out_plain = content(PAIRS[pi][0], L, ctx.seed)
    in_plain = content(PAIRS[pi][1], L, ctx.seed)
    coll = _Coll()
    cls = collections.Counter()
    ncase = nontriv = 0
    comps_in = [(ci, label(ci, 'x')) for ci in compositions(L)]
    for idx, co in enumerate(compositions(L)):
        if idx % nshard != shard:
            continue
        a = len(co)
        for ci, calls in comps_in:
            _judge_a(coll, 'long', E, sname, secret, out_plain, in_plain,
                     co, calls, alternating(a, len(ci)))
        k = len(comps_in)
        ncase += k
        nontriv += k if a > 1 else k - 1
        _split_classes(cls, co, 'out', k)
    # in-direction classes are the same for every out composition
    mine = sum(1 for idx in range(1 << (L - 1)) if idx % nshard == shard)
    for ci, _ in comps_in:
        _split_classes(cls, ci, 'in', mine)
    cls['A interleaving: directions alternate every call'] += ncase
    cls['A in: read and recv alternate on the shared decryptor'] += ncase
    ctx.count(ncase)
    ctx.note_distinct(nontriv)
    for k, v in cls.items():
        if v:
            ctx.cls(k, v)
    ctx.cls('A-long stream length %d' % L, ncase)
    ctx.outcome('A-long ok', ncase - sum(coll.n.values()))
    for k, v in coll.n.items():
        ctx.outcome('A-long FAIL ' + k, v)
    coll.flush(ctx)


RETAIN = 'A raw socket keeps the objects handed to send() and reads them ' \
    'at the end of the history'
RETAIN_LATER = 'A raw socket keeps the objects: a wrapper call follows a ' \
    'send whose argument is still unread'
F_REPORTED = 'A-fault: the error reached the caller of the wrapper'
F_ABSORBED = 'A-fault: the raw call failed, no error reached the caller'


def fault_points(out_parts, in_calls):
    """(where, k): every raw call of the fault-free history can be the one
    that fails (the wrappers make one raw call per call)."""
    pts = [('send', k) for k in range(1, len(out_parts) + 1)]
    pts += [('recv', k) for k in range(
        1, sum(1 for c in in_calls if c[0] == 'v') + 1)]
    pts += [('read', k) for k in range(
        1, sum(1 for c in in_calls if c[0] == 'r') + 1)]
    return pts


def w_fault(ctx, task):
    """ALL compositions of both directions (alternating interleaving,
    alternating read/recv) x every raw call failing x 3 errors."""
    import collections
    si, m, n = task
    E = env()
    sname, secret = secrets_for(ctx.seed)[si]
    out_plain = content(PAIRS[0][0], m, ctx.seed)
    in_plain = content(PAIRS[0][1], n, ctx.seed)
    coll = _Coll()
    cls = collections.Counter()
    ncase = bad = 0
    for co in compositions(m):
        for ci in compositions(n):
            calls = label(ci, 'x')
            order = alternating(len(co), len(calls))
            for where, k in fault_points(co, calls):
                for name, _ in FAULTS:
                    info = {}
                    ok = _judge_a(coll, 'fault', E, sname, secret, out_plain,
                                  in_plain, co, calls, order,
                                  fault=(where, k, name), info=info)
                    ncase += 1
                    bad += not ok
                    if info.get('fired'):
                        cls['A-fault: %s raised' % WHERE_TEXT[where]] += 1
                        cls['A-fault: %s' % name] += 1
                        cls[F_REPORTED if info.get('reported')
                            else F_ABSORBED] += 1
                        if where == 'send' and 1 < k:
                            cls['A-fault: a send fails after earlier sends '
                                'completed'] += 1
                        if where == 'send' and k < len(co):
                            cls['A-fault: a send fails and more were to '
                                'follow'] += 1
                    else:
                        cls['A-fault: the fault point was never reached'] += 1
    ctx.count(ncase)
    ctx.note_distinct(ncase)
    for k, v in cls.items():
        ctx.cls(k, v)
    ctx.outcome('A-fault ok', ncase - bad)
    for k, v in coll.n.items():
        ctx.outcome('A-fault FAIL ' + k, v)
    coll.flush(ctx)
    if task == (2, 3, 3):
        ctx.sample({'part': 'A-fault', 'secret': secret, 'out_plain':
                    out_plain, 'in_plain': in_plain, 'cases': ncase,
                    'errors': [f[0] for f in FAULTS]})


def w_empty(ctx, task):
    """Empty calls, over-asking receive calls, receive at end of stream."""
    si, pi, L = task
    E = env()
    sname, secret = secrets_for(ctx.seed)[si]
    out_plain = content(PAIRS[pi][0], L, ctx.seed)
    in_plain = content(PAIRS[pi][1], L, ctx.seed)
    coll = _Coll()
    n = bad = 0
    comps = list(compositions(L))
    for co in comps:
        for ci in comps:
            variants = []
            for at in range(len(co) + 1):        # one empty send
                variants.append((co[:at] + (0,) + co[at:], label(ci, 'x')))
            for at in range(len(ci) + 1):        # one zero-length receive
                for style in ('r', 'v'):
                    c2 = list(label(ci, 'x'))
                    c2.insert(at, (style, 0))
                    variants.append((co, tuple(c2)))
            for style in ('r', 'v'):
                c2 = list(label(ci, 'x'))
                k, last = c2[-1]
                c2[-1] = (k, last + 3)           # asks for more than is left
                variants.append((co, tuple(c2)))
                variants.append((co, label(ci, 'x') + ((style, 5),)))  # EOF
            for parts, calls in variants:
                ok = _judge_a(coll, 'empty', E, sname, secret, out_plain,
                              in_plain, parts, calls,
                              alternating(len(parts), len(calls)))
                n += 1
                bad += not ok
            ctx.cls('A empty: send(b"") inserted', len(co) + 1)
            ctx.cls('A empty: read(0)/recv(0) inserted', 2 * (len(ci) + 1))
            ctx.cls('A empty: receive asks for more than available', 2)
            ctx.cls('A empty: receive at end of stream', 2)
    ctx.count(n)
    ctx.note_distinct(n)
    ctx.outcome('A-empty ok', n - bad)
    for k, v in coll.n.items():
        ctx.outcome('A-empty FAIL ' + k, v)
    coll.flush(ctx)


def kib_grid(ctx, size):
    if ctx.thorough:
        stride = 7 if size == 1024 else 29
        g = set(range(stride, size, stride)) | {1, 2, 15, 16, 17, 31, 32, 33}
    else:
        stride = 53 if size == 1024 else 211
        g = set(range(stride, size, stride))
    return sorted(x for x in g if 0 < x < size)


def kib_cuts(ctx, size):
    """-> list of cut tuples (1-cut and 2-cut partitions)."""
    step = 1 if (ctx.thorough or size == 1024) else 3
    cuts = [(c,) for c in range(1, size, step)]
    g = kib_grid(ctx, size)
    cuts += [(g[i], g[j]) for i in range(len(g)) for j in range(i + 1,
                                                                len(g))]
    return cuts


def _parts(size, cuts):
    edges = (0,) + tuple(cuts) + (size,)
    return tuple(edges[i + 1] - edges[i] for i in range(len(edges) - 1))


def w_kib(ctx, task):
    si, size, shard, nshard = task
    E = env()
    sname, secret = secrets_for(ctx.seed)[si]
    out_plain = content('seeded', size, ctx.seed)
    in_plain = content('counter', size, ctx.seed)[::-1]
    coll = _Coll()
    n = bad = 0
    for idx, cuts in enumerate(kib_cuts(ctx, size)):
        if idx % nshard != shard:
            continue
        co = _parts(size, cuts)
        ci = _parts(size, tuple(sorted(size - c for c in cuts)))
        calls = label(ci, 'x' if idx & 1 else 'r')
        retain = bool(idx & 2)
        ok = _judge_a(coll, 'kib-retain' if retain else 'kib', E, sname,
                      secret, out_plain, in_plain, co, calls,
                      alternating(len(co), len(calls)), retain)
        n += 1
        if retain:
            ctx.cls(RETAIN)
            ctx.cls('A KiB: raw socket keeps the objects handed to send()')
        bad += not ok
        ctx.cls('A KiB: %d bytes, %d-cut partition' % (size, len(cuts)))
        if any(c % 16 for c in cuts):
            ctx.cls('A KiB: a cut off the 16-byte block grid')
        else:
            ctx.cls('A KiB: all cuts on the 16-byte block grid')
    ctx.count(n)
    ctx.note_distinct(n)
    ctx.outcome('A-KiB ok', n - bad)
    for k, v in coll.n.items():
        ctx.outcome('A-KiB FAIL ' + k, v)
    coll.flush(ctx)
    if (si, size, shard) == (3, 1024, 0):
        ctx.sample({'part': 'A-KiB', 'size': size, 'secret': secret,
                    'wire_head': ref_enc(secret, out_plain)[:16]})


# -- part A-seg: the UNDERLYING transport returns short reads ----------------

class _SegStream(object):
    """Raw byte source whose data arrived in segments: one call hands out at
    most the rest of the current segment (what an unbuffered socket file,
    makefile('rb', 0), and socket.recv do), never more than asked."""
    __slots__ = ('buf', 'pos', 'ends', 'si', 'short', 'calls')

    def __init__(self, buf, segs):
        self.buf, self.pos, self.si = buf, 0, 0
        self.short = self.calls = 0
        ends, e = [], 0
        for k in segs:
            e += k
            ends.append(e)
        if e != len(buf):
            raise ToolError('segmentation %r does not cover %d bytes'
                            % (segs, len(buf)))
        self.ends = ends

    def take(self, n):
        self.calls += 1
        if n <= 0:
            return b''
        ends = self.ends
        while self.si < len(ends) and self.pos >= ends[self.si]:
            self.si += 1
        if self.si >= len(ends):
            return b''
        p = self.pos
        k = min(n, ends[self.si] - p)
        self.pos = p + k
        if k < n and self.pos < len(self.buf):
            self.short += 1         # short although more bytes follow
        return self.buf[p:p + k]


def exec_seg(E, secret, in_plain, segs, asks, style):
    """The caller wants asks[0], asks[1], ... bytes and, like
    PacketReactor.read_packet, repeats a request for the missing rest until
    it is filled or a call returns nothing (end of stream).  The raw object
    under the wrappers returns short reads according to `segs`.
    -> (None | (kind, text), number of short raw reads, wrapper calls)."""
    stream = _SegStream(ref_enc(secret, in_plain), segs)
    have = ncall = 0
    try:
        sock, fobj = install(E, secret, _RawSock(stream), _RawFile(stream))
        for k in asks:
            filled = 0
            eof = False
            while filled < k:
                kind = style if style != 'x' else 'rv'[ncall & 1]
                ask = k - filled
                got = fobj.read(ask) if kind == 'r' else sock.recv(ask)
                ncall += 1
                name = '%s(%d)' % ('file.read' if kind == 'r'
                                   else 'socket.recv', ask)
                if not isinstance(got, (bytes, bytearray)):
                    return (('in.seg type', 'receive call #%d %s returned '
                             '%s' % (ncall, name, _short(got))),
                            stream.short, ncall)
                if len(got) > ask:
                    return (('in.seg more than asked',
                             'receive call #%d %s returned %d bytes: %s'
                             % (ncall, name, len(got), _short(got))),
                            stream.short, ncall)
                if bytes(got) != in_plain[have:have + len(got)]:
                    return (('in.seg.' + {'r': 'read', 'v': 'recv'}[kind],
                             'receive call #%d %s returned %s; the '
                             'reference CFB8 decryption of the ciphertext '
                             'stream continues at offset %d with %s (the '
                             'raw object had handed out %d of %d ciphertext '
                             'bytes, %d of its reads were short)'
                             % (ncall, name, _short(got), have,
                                in_plain[have:have + max(len(got), 1)][:24]
                                .hex(), stream.pos, len(in_plain),
                                stream.short)),
                            stream.short, ncall)
                if not got:
                    eof = True
                    break
                filled += len(got)
                have += len(got)
            if eof:
                break
    except Exception as e:
        return (('in.seg exception', 'the wrappers raised %s: %s'
                 % (type(e).__name__, e)), stream.short, ncall)
    want = min(sum(asks), len(in_plain))
    if have != want:
        return (('in.seg lost', 'the caller asked for %d bytes in total, the '
                 'stream has %d, but only %d were returned before a receive '
                 'call came back empty' % (sum(asks), len(in_plain), have)),
                stream.short, ncall)
    return None, stream.short, ncall


def _case_seg(tag, sname, secret, in_plain, segs, asks, style):
    return {'part': 'A-seg', 'tag': tag, 'secret_name': sname,
            'secret': secret, 'in_plain': in_plain, 'segs': list(segs),
            'asks': list(asks), 'style': style}


def _judge_seg(coll, tag, E, sname, secret, in_plain, segs, asks, style):
    """-> (ok, short raw reads)."""
    res, short, ncall = exec_seg(E, secret, in_plain, segs, asks, style)
    if res is None:
        return True, short
    kind, text = res
    rank = (len(in_plain), len(segs) + len(asks), sname, list(segs),
            list(asks), style)
    coll.add('A.%s %s' % (tag, kind), rank,
             'secret %s (%s), in stream %s (reference ciphertext %s) '
             'arriving in segments %r, caller asks for %r bytes (repeating a '
             'request for the rest until filled), receive style %s: %s'
             % (sname, secret.hex(), in_plain[:24].hex(),
                ref_enc(secret, in_plain)[:24].hex(), _clip(segs),
                _clip(asks), {'r': 'file.read', 'v': 'socket.recv',
                              'x': 'read/recv alternating'}[style], text),
             _case_seg(tag, sname, secret, in_plain, segs, asks, style))
    return False, short


def _clip(parts):
    parts = list(parts)
    return parts if len(parts) <= 12 else parts[:12] + ['...']


SEG_SHORT = 'A-seg: underlying short read (the raw object returned fewer ' \
    'bytes than asked although more follow)'
SEG_SPAN = 'A-seg: one request spans two or more segments'
SEG_ALIGNED = 'A-seg: every request is satisfied by one raw read'


def w_seg(ctx, task):
    """ALL segmentations of the ciphertext x ALL compositions of the
    caller's requests x 3 receive styles for one (secret, content, n)."""
    import collections
    si, pi, n, over = task
    E = env()
    sname, secret = secrets_for(ctx.seed)[si]
    in_plain = content(PAIRS[pi][1], n, ctx.seed)
    coll = _Coll()
    cls = collections.Counter()
    ncase = nshort = bad = 0
    comps = list(compositions(n))
    for segs in comps:
        for asks in comps:
            if over:
                asks = asks[:-1] + (asks[-1] + 3,)
            for style in 'rvx':
                ok, short = _judge_seg(coll, 'seg', E, sname, secret,
                                       in_plain, segs, asks, style)
                ncase += 1
                bad += not ok
                if short:
                    nshort += 1
                    cls[SEG_SHORT] += 1
                    if len(segs) > 1 and len(asks) > 1:
                        cls['A-seg: short raw reads and two or more '
                            'requests'] += 1
                else:
                    cls[SEG_ALIGNED] += 1
            if over:
                cls['A-seg: last request asks for 3 bytes more than the '
                    'stream has (ends with an empty read)'] += 3
    ctx.count(ncase)
    ctx.note_distinct(nshort)
    for k, v in cls.items():
        ctx.cls(k, v)
    ctx.cls('A-seg stream length %d' % n, ncase)
    ctx.outcome('A-seg ok', ncase - bad)
    for k, v in coll.n.items():
        ctx.outcome('A-seg FAIL ' + k, v)
    coll.flush(ctx)
    if (si, pi, n, over) == (2, 0, 4, 0):
        ctx.sample({'part': 'A-seg', 'secret': secret, 'in_plain': in_plain,
                    'ciphertext': ref_enc(secret, in_plain),
                    'segmentations': len(comps), 'request_splits':
                    len(comps), 'styles': 3, 'cases': ncase})


def seg_kib_cases(ctx, size):
    """-> list of (segs, asks): big streams in few segments."""
    out = []
    step = 1 if (ctx.thorough or size == 1024) else 3
    frames = ((size,), (1, 1, size - 2), (2, size - 2), (size - 1, 1))
    for i, c in enumerate(range(1, size, step)):
        out.append(((c, size - c), frames[i % len(frames)]))
    g = kib_grid(ctx, size)
    k = 0
    for i in range(len(g)):
        for j in range(i + 1, len(g)):
            out.append((_parts(size, (g[i], g[j])), frames[k % len(frames)]))
            k += 1
    for mss in (1, 16, 17, 536, 1460):
        if mss < size:
            segs = (mss,) * (size // mss)
            if size % mss:
                segs += (size % mss,)
            for asks in frames:
                out.append((segs, asks))
            # requests that straddle every segment boundary
            q = mss + 1
            asks = (q,) * (size // q)
            if size % q:
                asks += (size % q,)
            out.append((segs, asks))
    return out


def w_seg_kib(ctx, task):
    si, size, shard, nshard = task
    E = env()
    sname, secret = secrets_for(ctx.seed)[si]
    in_plain = content('seeded', size, ctx.seed + 1)
    coll = _Coll()
    n = bad = nshort = 0
    for idx, (segs, asks) in enumerate(seg_kib_cases(ctx, size)):
        if idx % nshard != shard:
            continue
        ok, short = _judge_seg(coll, 'seg-kib', E, sname, secret, in_plain,
                               segs, asks, 'rvx'[idx % 3])
        n += 1
        bad += not ok
        if short:
            nshort += 1
            ctx.cls(SEG_SHORT)
        ctx.cls('A-seg KiB: %d bytes in %s segments' % (
            size, len(segs) if len(segs) <= 3 else 'many'))
    ctx.count(n)
    ctx.note_distinct(nshort)
    ctx.outcome('A-seg-KiB ok', n - bad)
    for k, v in coll.n.items():
        ctx.outcome('A-seg-KiB FAIL ' + k, v)
    coll.flush(ctx)


# -- part B ------------------------------------------------------------------

def token_bytes(pattern, n):
    if pattern == 'zeros':
        return bytes(n)
    if pattern == 'ff':
        return b'\xff' * n
    return bytes((i + 1) & 0xFF for i in range(n))     # counter


def judge_rsa(E, bits, pattern, n, sname, secret):
    """-> (list of (key, what), informational dict)."""
    from cryptography.hazmat.primitives.asymmetric.padding import PKCS1v15
    from vf import harness
    key, der = harness.rsa_key(bits)
    token = token_bytes(pattern, n)
    out = []
    info = {}
    try:
        r1 = E.encrypt_token_and_secret(der, token, secret)
        r2 = E.encrypt_token_and_secret(der, token, secret)
    except Exception as e:
        return [('B exception', 'encrypt_token_and_secret raised %s: %s'
                 % (type(e).__name__, e))], info
    try:
        enc_token, enc_secret = r1
        enc_token, enc_secret = bytes(enc_token), bytes(enc_secret)
    except Exception:
        return [('B shape', 'encrypt_token_and_secret returned %r, expected '
                 'a pair of byte strings' % (r1,))], info
    for what, blob, want in (('token', enc_token, token),
                             ('secret', enc_secret, secret)):
        if len(blob) != bits // 8:
            out.append(('B %s length' % what,
                        'encrypted %s has %d bytes, an RSA-%d ciphertext has '
                        '%d' % (what, len(blob), bits, bits // 8)))
        try:
            got = key.decrypt(blob, PKCS1v15())
        except Exception as e:
            out.append(('B %s undecryptable' % what,
                        'the key holder cannot decrypt the encrypted %s with '
                        'PKCS#1 v1.5: %s' % (what, type(e).__name__)))
            continue
        if got != want:
            out.append(('B %s wrong' % what,
                        'the key holder recovers %s = %s, expected %s'
                        % (what, got.hex(), want.hex())))
    try:
        info['randomised'] = (bytes(r1[0]) != bytes(r2[0])
                              and bytes(r1[1]) != bytes(r2[1]))
    except Exception:
        info['randomised'] = None
    return out, info


def w_rsa(ctx, task):
    bits, pattern, lo, hi = task
    E = env()
    coll = _Coll()
    for n in range(lo, hi + 1):
        for sname, secret in secrets_for(ctx.seed):
            ctx.count()
            res, info = judge_rsa(E, bits, pattern, n, sname, secret)
            ctx.cls('B RSA-%d' % bits)
            if n == 16 and token_bytes(pattern, n) == secret:
                ctx.cls('B token equals secret (swap invisible)')
            else:
                ctx.cls('B token differs from secret (swap visible)')
            if info.get('randomised'):
                ctx.cls('B two calls give different ciphertexts '
                        '(informational)')
            elif not res:
                ctx.cls('B two calls gave EQUAL ciphertexts (informational, '
                        'not judged)')
            if not res:
                ctx.outcome('B ok')
            for key, what in res:
                ctx.outcome('B FAIL ' + key)
                coll.add(key, (n, bits, pattern, sname),
                         'RSA-%d, token %s x %d, secret %s: %s'
                         % (bits, pattern, n, sname, what),
                         {'part': 'B', 'bits': bits, 'pattern': pattern,
                          'n': n, 'secret_name': sname, 'secret': secret})
    ctx.note_distinct((hi - lo + 1) * 4)
    coll.flush(ctx)


def w_keys(ctx, task):
    """Make sure both cached keys exist before the pools need them."""
    from vf import harness
    for bits in (1024, 2048):
        harness.rsa_key(bits)


# -- part C -------------------------------------------------------------------

def body_c(W, style, k, version, token, variant='plain', raw_len=0):
    """variant: 'plain'; 'burst' = the server sends a login plugin request
    and the encryption request in one burst, so that the client's (queued)
    plugin response is waiting in the outgoing queue when the encryption
    request is handled; 'listener' = an early listener on the encryption
    request queues a serverbound packet at that moment.  raw_len > 0: after
    the login the DRIVER reads server-encrypted bytes through the wrappers
    the library installed (conn.socket.recv / conn.file_object.read)."""
    from vf import harness
    script = [('encrypt', 'srv', token), ('success',)]
    if variant == 'burst':
        script.insert(0, ('plugin', 1, 'vf:a', b''))
    W.serve(login=script, mode='burst', rsa=harness.rsa_key())
    from minecraft.networking.packets import serverbound, clientbound
    logins = []
    conn = None
    errs = []
    for j in range(k):
        if conn is None or style == 'separate':
            conn = W.connection(
                allowed_versions={version},
                handle_exception=lambda e, i: errs.append(
                    type(e).__name__))
            if variant == 'listener':
                def queue_one(packet, conn=conn):
                    conn.write_packet(serverbound.login.PluginResponsePacket(
                        message_id=77, successful=False))
                conn.register_packet_listener(
                    queue_one, clientbound.login.EncryptionRequestPacket,
                    early=True)
        draws_before = len(W.S.urandom_log)
        raised = None
        try:
            conn.connect()
        except ToolError:
            raise
        except Exception as e:
            raised = '%s: %s' % (type(e).__name__, e)
        W.settle()
        srv = W.servers[-1] if W.servers else None
        rec = {'servers': len(W.servers), 'errs_login': list(errs),
               'connect_raised': raised}
        if srv is not None:
            ka = [2 ** 40 + 17 * j + 5, -(j + 1), 7]
            if not srv.rank.ge(version, 339):
                ka = [2 ** 30 + 17 * j + 5, -(j + 1), 7]
            if variant != 'plain':
                strict = set(srv.ids(n, version) for n in (
                    'sb.play.keep_alive', 'sb.play.chat',
                    'sb.play.position_and_look', 'sb.play.teleport_confirm'))
                if srv.ids('sb.login.plugin_response', version) in strict:
                    raise ToolError('C-queued at protocol %d: the stray '
                                    'packet would be decoded strictly'
                                    % version)
            in_play = srv.state == 'play' and \
                type(conn.reactor).__name__ == 'PlayingReactor'
            if in_play and raw_len and not srv.errors:
                rec['raw'] = raw_reads(W, conn, srv, raw_len, j)
            if in_play:
                try:
                    for i, n in enumerate(ka):
                        srv.play(('keepalive', n))
                        conn.write_packet(serverbound.play.ChatPacket(
                            message=CHATS[(i + j) % len(CHATS)]))
                        W.settle()
                    conn.write_packet(serverbound.play.ChatPacket(
                        message=CHATS[3]), force=True)
                    W.settle()
                except ToolError:
                    raise
                except Exception as e:
                    rec['write_raised'] = '%s: %s' % (type(e).__name__, e)
                    W.settle()
            rec.update(
                state=srv.state, reactor=type(conn.reactor).__name__,
                secret=srv.secret, token_back=srv.token_back,
                errors=list(srv.errors), play_rx=list(srv.play_rx),
                enc_bytes=srv.encrypted_rx_bytes, keepalives=ka,
                chats=[CHATS[(i + j) % len(CHATS)] for i in range(3)]
                + [CHATS[3]],
                plugin_replies=list(srv.plugin_replies),
                errs_play=list(errs))
        rec['draws'] = list(W.S.urandom_log[draws_before:])
        logins.append(rec)
        try:
            conn.disconnect()
        except Exception as e:
            rec['disconnect_raised'] = type(e).__name__
        W.settle()
    return {'logins': logins, 'urandom_log': list(W.S.urandom_log)}


def raw_patterns(L):
    """All compositions of L into receive calls x both alternation phases
    (first call socket.recv or file.read, then strictly alternating)."""
    out = []
    for parts in compositions(L):
        for phase in (0, 1):
            out.append(tuple(('vr'[(i + phase) & 1], p)
                             for i, p in enumerate(parts)))
    return out


def raw_reads(W, conn, srv, L, j):
    """The client is quiescent (networking thread parked in its poll).  For
    every pattern: the server encrypts L non-frame bytes on its running tx
    cipher and pushes them; the driver reads them back through the
    connection's OWN wrappers.  -> first mismatch or None, plus counts."""
    n = 0
    first = None
    for pi, calls in enumerate(raw_patterns(L)):
        plain = _h(b'c18 raw %d %d %d' % (L, j, pi), L)
        data = srv.tx_cipher.encrypt(plain)
        srv.tx_off += len(data)
        srv.conn.push(data)
        got = []
        exc = None
        for kind, size in calls:
            try:
                r = conn.socket.recv(size) if kind == 'v' else \
                    conn.file_object.read(size)
            except Exception as e:
                exc = '%s: %s' % (type(e).__name__, e)
                break
            got.append(bytes(r))
        n += 1
        if (exc is not None or b''.join(got) != plain) and first is None:
            first = {'pattern': ['%s%d' % c for c in calls],
                     'plain': plain, 'got': got, 'exc': exc,
                     'left_unread': len(srv.conn.s2c)}
            # drain whatever the failed pattern left behind
            del srv.conn.s2c[:]
    W.settle()
    return {'patterns': n, 'first_bad': first}


def judge_c(x, style, k, version, token, variant='plain'):
    """-> list of (key, what)."""
    out = []
    if x.failure is not None:
        return [('C ' + x.failure[0], 'the client %s during the logins: %s'
                 % (x.failure[0], x.failure[1]))]
    r = x.result
    log = r['urandom_log']
    if len(log) != k:
        out.append(('C draws', '%d logins made %d draws from the OS random '
                    'source (encryption.os.urandom), expected exactly one '
                    'per login; draws: %s'
                    % (k, len(log), [d.hex() for d in log[:6]])))
    for d in log:
        if len(d) != 16:
            out.append(('C draw size', 'a draw of %d bytes, expected 16'
                        % len(d)))
            break
    for j, rec in enumerate(r['logins']):
        who = 'login %d of %d' % (j + 1, k)
        if rec['servers'] != j + 1 or 'state' not in rec:
            out.append(('C no connection', '%s: %d server connections so '
                        'far, expected %d (connect() raised: %s)'
                        % (who, rec['servers'], j + 1,
                           rec.get('connect_raised'))))
            continue
        if rec['secret'] is None:
            out.append(('C secret unreadable', '%s: the server could not '
                        'recover a shared secret: %s'
                        % (who, rec['errors'][:2])))
            continue
        want = log[j] if j < len(log) else None
        if rec['secret'] != want:
            out.append(('C secret not the fresh draw',
                        '%s: the server decrypted secret %s; draw #%d of '
                        'the OS source is %s (secrets of all logins: %s)'
                        % (who, rec['secret'].hex(), j + 1,
                           want.hex() if want is not None else 'missing',
                           [q.get('secret').hex() if q.get('secret')
                            else None for q in r['logins']])))
        if rec['draws'] != ([want] if want is not None else []) and \
                len(log) == k:
            out.append(('C draws', '%s made draws %s, expected exactly one '
                        % (who, [d.hex() for d in rec['draws']])))
        if rec['token_back'] != token:
            out.append(('C token', '%s: the server recovered verify token '
                        '%r, sent %s' % (who, rec['token_back'],
                                         token.hex())))
        if rec['errors']:
            out.append(('C traffic', '%s: traffic after the encryption '
                        'response does not decode under CFB8(secret): %s'
                        % (who, rec['errors'][:2])))
            continue
        if rec['state'] != 'play' or rec['reactor'] != 'PlayingReactor':
            out.append(('C no play', '%s: server state %s, client reactor '
                        '%s, client errors %s' % (who, rec['state'],
                                                  rec['reactor'],
                                                  rec['errs_login'])))
            continue
        raw = rec.get('raw')
        if raw is not None and raw['first_bad'] is not None:
            fb = raw['first_bad']
            out.append(('C installed wrappers: mixed recv/read',
                        '%s: after the login the server pushed %s encrypted '
                        'on its running CFB8 stream; read through the '
                        'wrappers the library installed with calls %r '
                        '(v = connection.socket.recv, r = '
                        'connection.file_object.read) the client got %s%s: '
                        'the received bytes are not one continuous CFB8 '
                        'stream across the two wrappers'
                        % (who, fb['plain'].hex(), fb['pattern'],
                           [g.hex() for g in fb['got']],
                           ' and raised ' + fb['exc'] if fb['exc'] else '')))
        if rec.get('write_raised'):
            out.append(('C client broke down in play', '%s: write_packet '
                        'raised %s after the login (client errors %s)'
                        % (who, rec['write_raised'], rec['errs_play'])))
        kas = [p[1] for p in rec['play_rx'] if p[0] == 'keepalive']
        chats = [p[1] for p in rec['play_rx'] if p[0] == 'chat']
        if kas != rec['keepalives']:
            out.append(('C keep-alive echo', '%s: server sent keep-alives '
                        '%r through the encrypted channel, echoes received '
                        '%r (client errors %s)' % (who, rec['keepalives'],
                                                   kas, rec['errs_play'])))
        if variant != 'plain':
            # the packet that waited in the queue reaches the server after
            # it has moved on to play and may decode as anything there,
            # also as a chat message: only the order of ours is required
            it = iter(chats)
            if all(c in it for c in rec['chats']):
                chats = list(rec['chats'])
        if sorted(chats) != sorted(rec['chats']):
            out.append(('C chat', '%s: chat messages decoded by the server '
                        '%r, sent %r' % (who, [c[:12] for c in chats],
                                         [c[:12] for c in rec['chats']])))
        if rec['enc_bytes'] <= 0:
            out.append(('C not encrypted', '%s: no encrypted bytes received'
                        % who))
    secs = [rec.get('secret') for rec in r['logins']]
    if len(secs) > 1 and None not in secs and len(set(secs)) != len(secs):
        out.append(('C secret reused', 'the same secret was used in more '
                    'than one login: %s' % [s.hex() for s in secs]))
    return out


def run_c(ctx, style, k, version, ti, variant='plain', raw_len=0):
    from vf import harness
    token = TOKENS_C[ti]
    useed = (ctx.seed * 1009 + k * 101 + version * 7 + ti * 3
             + (style == 'same') + 13 * raw_len
             + 17 * len(variant)) & 0x7FFFFFFF
    x = harness.run(lambda W: body_c(W, style, k, version, token, variant,
                                     raw_len),
                    horizon=400000, seed=useed)
    return x, judge_c(x, style, k, version, token, variant)


def w_c(ctx, task):
    style, k, version, ti, variant, raw_len = task
    x, res = run_c(ctx, style, k, version, ti, variant, raw_len)
    ctx.count()
    ctx.note_distinct(1)
    ctx.cls('C %d consecutive login(s), %s Connection object%s'
            % (k, style, '' if style == 'same' or k == 1 else 's'))
    ctx.cls('C protocol %d' % version)
    ctx.cls({'plain': 'C plain login script',
             'burst': 'C a queued packet waits when the encryption request '
                      'is handled (plugin request + encryption request in '
                      'one burst)',
             'listener': 'C a queued packet waits when the encryption '
                         'request is handled (early listener queues one)'
             }[variant])
    if raw_len and x.failure is None:
        for rec in x.result['logins']:
            if rec.get('raw'):
                ctx.cls('C installed wrappers: recv/read patterns read by '
                        'the driver', rec['raw']['patterns'])
                ctx.cls('C installed wrappers: raw stream length %d'
                        % raw_len, rec['raw']['patterns'])
    coll = _Coll()
    if not res:
        ctx.outcome('C ok: secret j = draw j, one draw per login, traffic '
                    'decrypts')
        if x.result['logins'][0].get('enc_bytes', 0) > 128:
            ctx.cls('C more than 128 encrypted bytes client->server in a '
                    'login')
    for key, what in res:
        ctx.outcome('C FAIL ' + key)
        coll.add(key, (k, raw_len, variant, style, version, ti),
                 '%d login(s), %s Connection object, protocol %d, verify '
                 'token %s, script %s: %s'
                 % (k, style, version, TOKENS_C[ti].hex(), variant, what),
                 {'part': 'C', 'style': style, 'k': k, 'version': version,
                  'token_index': ti, 'seed': ctx.seed, 'variant': variant,
                  'raw_len': raw_len})
    coll.flush(ctx)
    if task == ('same', 2, 757, 1, 'plain', 0) and x.failure is None:
        ctx.sample({'part': 'C', 'logins': 2, 'style': style,
                    'urandom_draws': x.result['urandom_log'],
                    'server_secrets': [q.get('secret')
                                       for q in x.result['logins']]})


# -- part C-hist / C-seg: login HISTORIES on one Connection object ----------

ENDS = ('play', 'kick', 'drop', 'junk', 'early')
END_TEXT = {
    'play': 'encryption, login success, play traffic, client disconnects',
    'kick': 'encryption, then an (encrypted) login Disconnect right after '
            'the encryption response',
    'drop': 'encryption, then the server closes the connection right after '
            'the encryption response',
    'junk': 'encryption, then 33 bytes that are not a CFB8 stream right '
            'after the encryption response, then close',
    'early': 'login Disconnect as the first packet (no encryption request)',
}
FAILING = ('kick', 'drop', 'junk', 'early')
SEG_POLICIES = (('mss', 1), ('mss', 2), ('mss', 3), ('mss', 5), ('mss', 7),
                ('mss', 16), ('mss', 33), ('cap', 2), ('cap', 4), ('cap', 8),
                ('half',))
PPL = (1.5, -64.25, 1000000.125, 90.0, -45.5)
CHAT_IN = '{"text":"%s"}' % ('segmented body ' * 20)      # 2-byte length


def seg_policy(policy, shorts):
    """Read segmentation for vnet: how many bytes ONE raw read returns.
    'mss' M: the server's byte stream arrives in segments of M bytes, a read
    never crosses a segment boundary; 'cap' K: at most K bytes per read;
    'half': half of what could be returned (rounded up)."""
    if policy is None:
        return None
    kind = policy[0]

    def seg(c, want, avail):
        room = min(want, avail)
        if kind == 'mss':
            k = policy[1] - c.consumed % policy[1]
        elif kind == 'cap':
            k = policy[1]
        else:
            k = (room + 1) // 2
        k = max(1, min(room, k))
        if k < room:
            shorts.append((c.id, c.consumed, want, k))
        return k
    return seg


def login_script(end, token, i):
    enc = ('encrypt', 'srv', token)
    if end == 'play':
        return [enc, ('success',)]
    if end == 'kick':
        return [enc, ('disconnect', '{"text":"You are not white-listed"}')]
    if end == 'drop':
        return [enc, ('close',)]
    if end == 'junk':
        return [enc, ('raw', _h(b'c18 junk %d' % i, 33)), ('close',)]
    if end == 'early':
        return [('disconnect', '{"text":"Server is full"}')]
    raise ValueError(end)


def body_h(W, hist, version, token, mode, shorts):
    """hist: endings of consecutive logins on ONE Connection object.
    mode 'driver': after a login that failed the driver calls connect()
    again once everything is quiet; mode 'handler': the exception handler
    given to the Connection calls connect() (from the networking thread)."""
    from vf import harness
    from vf.refproto import codec
    from vf.refserver import CHAT_SENDER_FROM, TELEPORT_ID_FROM
    from minecraft.networking.packets import serverbound, clientbound
    W.serve(mode='burst', rsa=harness.rsa_key(),
            per_conn=lambda i: {'login': login_script(
                hist[min(i, len(hist) - 1)], token, i)})
    errs, marks, raised, chat_in = [], [], [], []
    st = {'left': 0}

    def do_connect():
        marks.append(len(W.S.urandom_log))
        try:
            conn.connect()
            raised.append(None)
        except ToolError:
            raise
        except Exception as e:
            raised.append('%s: %s' % (type(e).__name__, e))

    def on_exc(e, info):
        errs.append(type(e).__name__)
        if st['left'] > 0:
            st['left'] -= 1
            do_connect()
    conn = W.connection(allowed_versions={version}, handle_exception=on_exc)
    conn.register_packet_listener(
        lambda p: chat_in.append(p.json_data),
        clientbound.play.ChatMessagePacket)
    recs = {}
    j = 0
    while j < len(hist):
        chain = 0
        if mode == 'handler':
            while j + chain < len(hist) - 1 and hist[j + chain] != 'play':
                chain += 1
        st['left'] = chain
        do_connect()
        W.settle()
        st['left'] = 0
        last = j + chain
        for i in range(j, last + 1):
            if i >= len(W.servers):
                break
            srv = W.servers[i]
            rec = recs[i] = {'how': 'driver' if i == j else 'handler'}
            if i == last and hist[i] == 'play' and srv.state == 'play' \
                    and type(conn.reactor).__name__ == 'PlayingReactor' \
                    and not srv.errors:
                ka = [2 ** 40 + 17 * i + 5, -(i + 1), 7]
                if not srv.rank.ge(version, 339):
                    ka = [2 ** 30 + 17 * i + 5, -(i + 1), 7]
                tid = 300 + i
                chats = [CHATS[(q + i) % len(CHATS)] for q in range(3)] \
                    + [CHATS[3]]
                n_in = len(chat_in)
                try:
                    for q, n in enumerate(ka):
                        srv.play(('keepalive', n))
                        conn.write_packet(serverbound.play.ChatPacket(
                            message=chats[q]))
                        W.settle()
                    srv.play(('ppl',) + PPL + (0, tid))
                    p = codec.string(CHAT_IN) + b'\x00'
                    if srv.rank.ge(version, CHAT_SENDER_FROM):
                        p += bytes(16)
                    srv.play(('named', 'play.chat', p))
                    W.settle()
                    conn.write_packet(serverbound.play.ChatPacket(
                        message=chats[3]), force=True)
                    W.settle()
                except ToolError:
                    raise
                except Exception as e:
                    rec['write_raised'] = '%s: %s' % (type(e).__name__, e)
                    W.settle()
                rec.update(
                    keepalives=ka, chats=chats,
                    ppl=('teleport_confirm', tid)
                    if srv.rank.ge(version, TELEPORT_ID_FROM)
                    else ('position_and_look',) + PPL + (True,),
                    chat_in=list(chat_in[n_in:]))
            vc = srv.conn
            off = vc.frame_ends[0] if vc.frame_ends else 0
            rec.update(
                state=srv.state, reactor=type(conn.reactor).__name__,
                secret=srv.secret, token_back=srv.token_back,
                errors=list(srv.errors), play_rx=list(srv.play_rx),
                enc_bytes=srv.encrypted_rx_bytes, errs=list(errs),
                asked_encryption=srv.verify_token is not None,
                short_encrypted_reads=sum(
                    1 for cid, consumed, want, k in shorts
                    if cid == vc.id and consumed >= off and want > 1)
                if srv.verify_token is not None else 0)
        if conn.connected or conn.networking_thread is not None \
                or (last < len(hist) and hist[last] == 'play'):
            try:
                conn.disconnect()
            except Exception as e:
                recs.setdefault(last, {})['disconnect_raised'] = \
                    type(e).__name__
            W.settle()
        j = last + 1
    log = list(W.S.urandom_log)
    bounds_ = marks + [len(log)]
    for i in range(len(marks)):
        if i in recs:
            recs[i]['draws'] = log[bounds_[i]:bounds_[i + 1]]
            recs[i]['connect_raised'] = raised[i]
    return {'logins': [recs.get(i) for i in range(len(hist))],
            'servers': len(W.servers), 'connects': len(marks),
            'raised': list(raised), 'errs': list(errs), 'urandom_log': log}


def judge_h(x, hist, version, token, mode, policy):
    """-> list of (key, what).  Only what the statement says: every login
    that got an encryption request sends a secret that is the fresh 16-byte
    draw of that login, secrets pairwise distinct, token back exactly,
    traffic in both directions one CFB8 stream under that secret."""
    if x.failure is not None:
        return [('C-hist ' + x.failure[0], 'the client %s during the '
                 'history: %s' % (x.failure[0], x.failure[1]))]
    out = []
    r = x.result
    k = len(hist)
    for j, rec in enumerate(r['logins']):
        end = hist[j]
        who = 'login %d of %d (%s)' % (j + 1, k, end)
        if rec is None or 'state' not in rec:
            out.append(('C-hist no connection', '%s did not take place: %d '
                        'server connections for %d logins (connect() calls '
                        '%d, raised %s, client errors %s)'
                        % (who, r['servers'], k, r['connects'],
                           [q for q in r['raised'] if q], r['errs'])))
            continue
        if end == 'early':
            continue        # no encryption request: nothing to judge
        if rec['secret'] is None:
            out.append(('C-hist secret unreadable', '%s: the server could '
                        'not recover a shared secret: %s'
                        % (who, rec['errors'][:2])))
            continue
        draws = rec.get('draws', [])
        fresh = draws[0] if draws else None
        if rec['secret'] != fresh:
            same = [i + 1 for i, q in enumerate(r['logins'][:j])
                    if q and q.get('secret') == rec['secret']]
            out.append(('C-hist secret not the fresh draw',
                        '%s: the server decrypted secret %s; the OS random '
                        'source (encryption.os.urandom) handed out %s during '
                        'this login%s (secrets of all logins: %s)'
                        % (who, rec['secret'].hex(),
                           [d.hex() for d in draws] or 'nothing',
                           '; it is the secret of login %s of the same '
                           'Connection object' % same if same else '',
                           [q.get('secret').hex() if q and q.get('secret')
                            else None for q in r['logins']])))
        elif len(draws) != 1 or len(draws[0]) != 16:
            out.append(('C-hist draws', '%s made draws %s from the OS random '
                        'source, expected exactly one of 16 bytes'
                        % (who, [d.hex() for d in draws])))
        if rec['token_back'] != token:
            out.append(('C-hist token', '%s: the server recovered verify '
                        'token %r, sent %s' % (who, rec['token_back'],
                                               token.hex())))
        if rec['errors']:
            out.append(('C-hist traffic', '%s: what the client sent after '
                        'the encryption response does not decode under '
                        'CFB8(secret): %s' % (who, rec['errors'][:2])))
            continue
        if end != 'play':
            continue
        if rec['state'] != 'play' or rec['reactor'] != 'PlayingReactor' \
                or 'keepalives' not in rec:
            out.append(('C-hist no play', '%s: server state %s, client '
                        'reactor %s, client errors %s'
                        % (who, rec['state'], rec['reactor'], rec['errs'])))
            continue
        if rec.get('write_raised'):
            out.append(('C-hist client broke down in play', '%s: '
                        'write_packet raised %s (client errors %s)'
                        % (who, rec['write_raised'], rec['errs'])))
        kas = [p[1] for p in rec['play_rx'] if p[0] == 'keepalive']
        chats = [p[1] for p in rec['play_rx'] if p[0] == 'chat']
        if kas != rec['keepalives']:
            out.append(('C-hist keep-alive echo', '%s: server sent '
                        'keep-alives %r through the encrypted channel, '
                        'echoes received %r (client errors %s)'
                        % (who, rec['keepalives'], kas, rec['errs'])))
        if rec['ppl'] not in rec['play_rx']:
            out.append(('C-hist position echo', '%s: the server sent an '
                        'encrypted player-position-and-look packet %r '
                        '(teleport id %d); expected answer %r, serverbound '
                        'packets decoded: %r (client errors %s)'
                        % (who, PPL, rec['ppl'][1] if rec['ppl'][0] ==
                           'teleport_confirm' else 0, rec['ppl'],
                           [p for p in rec['play_rx']
                            if p[0] not in ('chat', 'keepalive')][:4],
                           rec['errs'])))
        if rec['chat_in'] != [CHAT_IN]:
            out.append(('C-hist received chat', '%s: the server sent one '
                        'encrypted chat message of %d characters; the '
                        'listener received %r (client errors %s)'
                        % (who, len(CHAT_IN),
                           [str(c)[:40] for c in rec['chat_in']],
                           rec['errs'])))
        if sorted(chats) != sorted(rec['chats']):
            out.append(('C-hist chat', '%s: chat messages decoded by the '
                        'server %r, sent %r' % (who, [c[:12] for c in chats],
                                                [c[:12] for c in
                                                 rec['chats']])))
        if rec['enc_bytes'] <= 0:
            out.append(('C-hist not encrypted', '%s: no encrypted bytes '
                        'received' % who))
    secs = [(j + 1, rec['secret']) for j, rec in enumerate(r['logins'])
            if rec and rec.get('secret') is not None]
    if len(set(q for _, q in secs)) != len(secs):
        out.append(('C-hist secret reused', 'the same secret was sent in '
                    'more than one login of the history: %s'
                    % ['login %d: %s' % (j, q.hex()) for j, q in secs]))
    return out


def run_h(ctx, hist, version, ti, mode, policy):
    from vf import harness
    token = TOKENS_C[ti]
    tag = '%r %d %d %s %r' % (hist, version, ti, mode, policy)
    useed = (ctx.seed * 1009 + int.from_bytes(_h(tag.encode('ascii'), 3),
                                              'big')) & 0x7FFFFFFF
    shorts = []
    x = harness.run(lambda W: body_h(W, hist, version, token, mode, shorts),
                    horizon=600000, seed=useed,
                    seg=seg_policy(policy, shorts))
    return x, judge_h(x, hist, version, token, mode, policy)


H_SECOND = 'C-hist: second login on the same Connection object'
H_THIRD = 'C-hist: third login on the same Connection object'
H_FROM_LOGIN = 'C-hist: login that follows a login ended in the login ' \
    'state after the encryption response'
H_FROM_EARLY = 'C-hist: login that follows a login refused before encryption'
H_FROM_PLAY = 'C-hist: login that follows a login that reached play'
H_HANDLER = 'C-hist: reconnect made by the exception handler (networking ' \
    'thread)'
H_SHORT = 'C-seg: underlying short read while an encrypted packet is read ' \
    '(body arrives in 2+ segments)'


def w_h(ctx, task):
    hist, version, ti, mode, policy = task
    x, res = run_h(ctx, hist, version, ti, mode, policy)
    ctx.count()
    ctx.note_distinct(1)
    ctx.cls('C-hist: history of %d login(s)' % len(hist))
    ctx.cls('C-hist: protocol %d' % version)
    if policy is not None:
        ctx.cls('C-seg: policy %s' % ' '.join(map(str, policy)))
    if x.failure is None:
        for j, rec in enumerate(x.result['logins']):
            if rec is None or 'state' not in rec:
                continue
            ctx.cls('C-hist: login ending ' + hist[j])
            if j >= 1:
                ctx.cls(H_SECOND if j == 1 else H_THIRD)
                ctx.cls(H_FROM_PLAY if hist[j - 1] == 'play' else
                        H_FROM_EARLY if hist[j - 1] == 'early' else
                        H_FROM_LOGIN)
                if rec['how'] == 'handler':
                    ctx.cls(H_HANDLER)
            if rec.get('short_encrypted_reads'):
                ctx.cls(H_SHORT, rec['short_encrypted_reads'])
                ctx.cls(H_SHORT + ', policy %s' % ' '.join(map(str, policy)),
                        rec['short_encrypted_reads'])
    coll = _Coll()
    if not res:
        ctx.outcome('C-hist ok: every secret is the fresh draw of its login, '
                    'all distinct, traffic decrypts')
    for key, what in res:
        ctx.outcome('C-hist FAIL ' + key)
        coll.add(key, (len(hist), 0 if policy is None else 1,
                       0 if mode == 'driver' else 1,
                       [ENDS.index(e) for e in hist], version, ti,
                       list(policy or ())),
                 'history %s on one Connection object (%s reconnects), '
                 'protocol %d, verify token %s, read segmentation %s: %s'
                 % (' > '.join(hist), mode, version, TOKENS_C[ti].hex(),
                    'none' if policy is None else ' '.join(map(str, policy)),
                    what),
                 {'part': 'C-hist', 'history': list(hist),
                  'version': version, 'token_index': ti, 'mode': mode,
                  'policy': list(policy) if policy else None,
                  'seed': ctx.seed})
    coll.flush(ctx)
    if task == (('kick', 'play'), 757, 1, 'driver', None) \
            and x.failure is None:
        ctx.sample({'part': 'C-hist', 'history': list(hist),
                    'urandom_draws': x.result['urandom_log'],
                    'server_secrets': [q.get('secret') if q else None
                                       for q in x.result['logins']]})


def hist_tasks(ctx):
    prod = itertools.product
    t = [(h, 757, 1, 'driver', None)
         for k in (1, 2, 3) for h in prod(ENDS, repeat=k)]
    t += [(h, v, ti, 'driver', None) for v, ti in ((47, 3), (340, 0))
          for h in prod(ENDS, repeat=3 if ctx.thorough else 2)]
    t += [((a, b), 757, 2, 'handler', None) for a in FAILING for b in ENDS]
    t += [((a, b, c), 757, 2, 'handler', None) for a in FAILING
          for b in FAILING for c in (ENDS if ctx.thorough else ('play',))]
    if ctx.thorough:
        t += [(h, 757, 1, 'driver', None) for h in prod(ENDS, repeat=4)]
    # C-seg: the server's byte stream reaches the client in short reads
    t += [(h, v, 1, 'driver', pol) for pol in SEG_POLICIES
          for v in VERSIONS_RAW for h in (('play',), ('play', 'play'))]
    t += [(h, 757, 3, 'driver', pol) for pol in SEG_POLICIES
          for h in (('kick', 'play'), ('junk', 'play'))]
    return t


# -- concurrent sections (vf.interleave): all schedules within a bound ------

CONC_MODULES = ['minecraft.networking.encryption']


class _SchedSock(object):
    """Raw socket for the schedule scenarios.  Entering send()/recv() is a
    scheduling point of its own: the call has been made (the wrapper has
    handed over its argument) but the socket has not consumed / produced
    anything yet - where a real system call runs without the interpreter
    lock."""

    def __init__(self, S, stream, retain=False):
        self.S, self.stream, self.sent, self.retain = S, stream, [], retain

    def send(self, data):
        self.S.point('raw.send')
        self.sent.append(data if self.retain else bytes(data))
        return len(data)

    def recv(self, n):
        self.S.point('raw.recv')
        return self.stream.take(n)


class _SchedFile(object):
    def __init__(self, S, stream):
        self.S, self.stream = S, stream

    def read(self, n):
        self.S.point('raw.read')
        return self.stream.take(n)


LINES_SEEN = 'choice at a source line of encryption.py'


def _line_flag(W):
    """Was a source line of encryption.py a choice point of this execution?
    (guard: the line points must be armed on the module as loaded now)"""
    return LINES_SEEN if any(str(p[2][0]).startswith('line:')
                             for p in W.S.points) else 'no line point'


def conc_body_a(W, params):
    """ONE wrapper pair (installed as LoginReactor does); agent 0 sends the
    out stream piece by piece, agent 1 receives the in stream call by call
    (socket.recv and/or file.read on the shared decryptor)."""
    E = W.E
    fresh_module(E)
    seed = params['seed']
    sname, secret = secrets_for(seed)[params['si']]
    out_parts = tuple(params['out'])
    in_calls = tuple((k, n) for k, n in params['in'])
    out_plain = content(PAIRS[0][0], sum(out_parts), seed)
    in_plain = content(PAIRS[0][1], sum(n for _, n in in_calls), seed)
    want_wire = ref_enc(secret, out_plain)
    stream = _Stream(ref_enc(secret, in_plain))
    rs = _SchedSock(W.S, stream, bool(params.get('retain')))
    sock, fobj = install(E, secret, rs, _SchedFile(W.S, stream))

    def sender():
        p = 0
        for n in out_parts:
            sock.send(out_plain[p:p + n])
            p += n

    def receiver():
        got = []
        for kind, n in in_calls:
            p0 = stream.pos
            g = fobj.read(n) if kind == 'r' else sock.recv(n)
            got.append((kind, n, p0, stream.pos, g))
        return got
    res = interleave.race(W, [sender, receiver], {0: 'sender', 1: 'receiver'})
    who = 'secret %s (%s), agent 0 sends %s in pieces %r while agent 1 ' \
        'receives %s with calls %r on the same wrapper pair' % (
            sname, secret.hex(), out_plain.hex(), list(out_parts),
            in_plain.hex(), ['%s%d' % c for c in in_calls])
    viol = []
    for i, r in enumerate(res):
        if r is None or r[0] != 'ok':
            viol.append(('exception', '%s: the %s raised %s'
                         % (who, ('sender', 'receiver')[i],
                            r[1] if r else 'nothing (did not run)')))
    if not viol:
        wire = wire_of(rs)
        if wire != want_wire:
            viol.append(('out', '%s: %s' % (who, _wire_text(secret, wire,
                                                            want_wire))))
        for ic, (kind, n, p0, p1, g) in enumerate(res[1][1]):
            if g != in_plain[p0:p1]:
                viol.append(_bad_in_text((ic, kind, n, p0, p1, g), in_plain))
                viol[-1] = (viol[-1][0], '%s: %s' % (who, viol[-1][1]))
                break
    return {'outcome': (tuple(k for k, _ in viol) or ('ok',))
            + (_line_flag(W),), 'violations': viol}


B_TOKEN_LENS = (4, 16, 1, 64, 7)


def _b_call(c):
    """(token, secret) of the c-th call of a B-conc scenario: all distinct."""
    n = B_TOKEN_LENS[c % len(B_TOKEN_LENS)]
    return (bytes((17 * c + 3 + j) & 0xFF for j in range(n)),
            _h(b'c18 b-conc secret %d' % c, 16))


def _b_check(key, blobs, token, secret):
    """-> None or text: what the key holder gets out of (enc token, enc
    secret)."""
    from cryptography.hazmat.primitives.asymmetric.padding import PKCS1v15
    try:
        enc_token, enc_secret = blobs
        enc_token, enc_secret = bytes(enc_token), bytes(enc_secret)
    except Exception:
        return 'returned %r, expected a pair of byte strings' % (blobs,)
    for what, blob, want in (('token', enc_token, token),
                             ('secret', enc_secret, secret)):
        try:
            got = key.decrypt(blob, PKCS1v15())
        except Exception as e:
            return 'the key holder cannot decrypt the encrypted %s (%d ' \
                'bytes) with PKCS#1 v1.5: %s' % (what, len(blob),
                                                 type(e).__name__)
        if got != want:
            return 'the key holder recovers %s = %s, expected %s' % (
                what, got[:32].hex(), want.hex())
    return None


def conc_body_b(W, params):
    """History: `pre` sequential calls, then two agents call
    encrypt_token_and_secret at the same time (keys params['race']), then
    `after` sequential calls; each call has its own token and secret."""
    from vf import harness
    E = W.E
    fresh_module(E)
    calls = []          # (phase, bits, token, secret, result)

    def one(phase, bits):
        c = len(calls)
        token, secret = _b_call(c)
        rec = [phase, bits, token, secret, None]
        calls.append(rec)
        der = harness.rsa_key(bits)[1]

        def f():
            return E.encrypt_token_and_secret(der, token, secret)
        return rec, f

    def seq(phase, bits):
        rec, f = one(phase, bits)
        try:
            rec[4] = ('ok', f())
        except Exception as e:
            rec[4] = ('exc', '%s: %s' % (type(e).__name__, e))
    for bits in params['pre']:
        seq('before', bits)
    pair = [one('race', bits) for bits in params['race']]
    res = interleave.race(W, [f for _, f in pair])
    for (rec, _), r in zip(pair, res):
        rec[4] = r
    for bits in params['after']:
        seq('after', bits)
    hist = 'calls in this process: %s; then two threads at the same time: ' \
        '%s; then one at a time: %s' % (
            ['RSA-%d' % b for b in params['pre']] or 'none',
            ['RSA-%d' % b for b in params['race']],
            ['RSA-%d' % b for b in params['after']])
    viol = []
    flags = []
    for c, (phase, bits, token, secret, r) in enumerate(calls):
        if r is None or r[0] != 'ok':
            bad = 'raised %s' % (r[1] if r else 'nothing (did not run)')
        else:
            bad = _b_check(harness.rsa_key(bits)[0], r[1], token, secret)
        flags.append(0 if bad is None else 1)
        if bad is not None:
            key = {'before': 'call before the overlap',
                   'race': 'one of two overlapping calls',
                   'after': 'call made on its own after the overlap'}[phase]
            if key not in [k for k, _ in viol]:
                viol.append((key, 'encrypt_token_and_secret(public key of '
                             'the RSA-%d server, token %s, secret %s) - call '
                             '#%d of the history (%s) - %s [%s]'
                             % (bits, token.hex(), secret.hex(), c + 1, key,
                                bad, hist)))
    return {'outcome': tuple(flags) + (_line_flag(W),), 'violations': viol}


def fresh_module(E):
    """Module state of encryption.py as in a process that has not used it
    yet: its body is executed again (importlib.reload: same module object,
    new globals, functions and classes), the scripted OS seam is put back and
    the new functions get their line points.  Without this, what one
    execution leaves behind in module globals would be the start state of
    the next one in the same worker, and a schedule would not mean the same
    thing twice."""
    import importlib
    import sys
    from vf import pysched
    shim = E.os
    importlib.reload(E)
    E.os = shim
    # (not pysched.add_line_points: the new code objects compare EQUAL to the
    # ones of the previous load, it would take them for armed already)
    mon = sys.monitoring
    for f in interleave.functions_of(E):
        code = f.__code__
        pysched._LINE_CODES.add(code)
        mon.set_local_events(pysched._TOOL, code, mon.get_local_events(
            pysched._TOOL, code) | mon.events.LINE)


def conc_factory(params):
    body = {'A-conc': conc_body_a, 'B-conc': conc_body_b}[params['kind']]

    def scenario(prefix, expect, visited=None, budget=0):
        return interleave.run(lambda W: body(W, params), prefix, expect,
                              budget, modules=CONC_MODULES)
    return scenario


A_SHAPES_QUICK = ((2,), (1, 2), (1, 1, 1))


def conc_tasks(ctx):
    """-> [(params, preemption bound, label)]"""
    out = []

    def a_task(si, style, co, ci, bound, retain=0):
        p = {'kind': 'A-conc', 'seed': ctx.seed, 'si': si, 'out': list(co),
             'in': [list(c) for c in label(ci, style)]}
        if retain:
            p['retain'] = 1
        out.append((p, bound, 'A-conc '))
    # B-conc: (a, b) and (b, a) differ only in which call index (token
    # length) meets which key: thorough only
    a, b = 1024, 2048
    races = ((a, b), (a, a), (b, a), (b, b)) if ctx.thorough \
        else ((a, b), (a, a))
    for pre in ((), (a,), (b,)):
        for race in races:
            for after in ((a, b), (b, a)):
                out.append(({'kind': 'B-conc', 'pre': list(pre),
                             'race': list(race), 'after': list(after)},
                            3 if ctx.thorough else 2, 'B-conc '))
    # A-conc: shapes = how the 2..4 bytes of a direction are cut into calls
    if ctx.thorough:
        shapes = [c for L in (1, 2, 3) for c in compositions(L)] \
            + [(2, 2), (1, 2, 1)]
        styles = 'vrx'
    else:
        shapes = list(A_SHAPES_QUICK)
        styles = 'vr'
    for style in styles:
        for co in shapes:
            for ci in shapes:
                deep = ctx.thorough and len(co) <= 2 and len(ci) <= 2
                a_task(2, style, co, ci, 3 if deep else 2)
        # the raw socket that keeps the objects, under schedules; the other
        # secrets (the key has no influence on where a switch can fall)
        a_task(2, style, (1, 2), (2, 1), 2, retain=1)
        if ctx.thorough:
            for si in (0, 1, 3):
                a_task(si, style, (1, 2), (2, 1), 2)
    return out


def run_conc(ctx, ex):
    tasks = conc_tasks(ctx)
    execs = {'A-conc': 0, 'B-conc': 0}
    broken = set()
    for params, bound, lab in tasks:
        if params['kind'] in broken:
            continue        # (one failing scenario per kind is enough)
        res = ex.explore(ctx, conc_factory, params, bound, label=lab)
        if res.violations:
            broken.add(params['kind'])
        execs[params['kind']] += res.execs
        ctx.note_distinct(res.execs)
        ctx.cls('%s: %s' % (params['kind'], LINES_SEEN),
                sum(n for o, n in res.outcomes.items() if LINES_SEEN in o))
        if params['kind'] == 'A-conc':
            ctx.cls('A-conc: one agent sends while another receives on the '
                    'same wrapper pair, all schedules', res.execs)
            kinds = set(c[0] for c in params['in'])
            ctx.cls('A-conc: receiver uses %s' % (
                'socket.recv and file.read' if len(kinds) == 2 else
                'file.read' if 'r' in kinds else 'socket.recv'), res.execs)
            if res.with_pre:
                ctx.cls('A-conc: schedules with a preemption', res.with_pre)
        else:
            ctx.cls('B-conc: two overlapping encrypt_token_and_secret calls, '
                    'all schedules', res.execs)
            ctx.cls('B-conc: %s' % ('same key in both threads'
                                    if params['race'][0] == params['race'][1]
                                    else 'two different keys'), res.execs)
            if params['pre']:
                ctx.cls('B-conc: another call was made before the overlap',
                        res.execs)
            if res.with_pre:
                ctx.cls('B-conc: schedules with a preemption', res.with_pre)
    ctx.extra['concurrent'] = {
        'scenarios': len(tasks),
        'preemption_bound': {
            k: max(b for p, b, _ in tasks if p['kind'] == k)
            for k in ('A-conc', 'B-conc')},
        'schedules_executed': execs,
        'points': 'every source line of ' + ', '.join(CONC_MODULES)
        + ' and every call of the raw socket / file stand-in'}
    need = ['A-conc: ' + LINES_SEEN, 'B-conc: ' + LINES_SEEN,
            'A-conc: schedules with a preemption',
            'A-conc: receiver uses socket.recv',
            'A-conc: receiver uses file.read',
            'B-conc: schedules with a preemption',
            'B-conc: same key in both threads', 'B-conc: two different keys',
            'B-conc: another call was made before the overlap']
    missing = [k for k in need if not ctx.classes.get(k)]
    if missing and not ctx.violations:
        raise ToolError('vacuity guard: classes never hit: %r' % missing)


# -- driver -------------------------------------------------------------------

def bounds(ctx):
    if ctx.thorough:
        return dict(full=7, full_both_pairs=6, long=range(8, 13),
                    both_pairs_to=10, empty=5, seg=9, seg_both_pairs=8,
                    seg_over=6, retain=5, fault=6)
    return dict(full=6, full_both_pairs=6, long=range(7, 11),
                both_pairs_to=8, empty=5, seg=8, seg_both_pairs=6,
                seg_over=5, retain=4, fault=5)


def run(ctx):
    ex = explore.Explorer(memo=False)   # forks its workers before anything runs
    try:
        _run(ctx)
        # (schedules only of a tree whose sequential behaviour is right)
        if not ctx.violations:
            run_conc(ctx, ex)
    finally:
        ex.close()


def _run(ctx):
    b = bounds(ctx)
    ctx.pmap(w_keys, [0])
    # part A + B: plain function calls, one pool
    F = b['full']
    full = []
    for si in range(4):
        for m in range(F + 1):
            for n in range(F + 1):
                if not (m or n):
                    continue
                for pi in range(2 if max(m, n) <= b['full_both_pairs'] else 1):
                    if not n:
                        full.append((si, pi, m, n, ('r',)))
                    elif m + n >= 12:       # big cells: one task per style
                        full += [(si, pi, m, n, (st,)) for st in 'rvx']
                    else:
                        full.append((si, pi, m, n, ('r', 'v', 'x')))
    # A-retain: the same product over the raw socket that keeps the objects
    R = b['retain']
    full += [(si, pi, m, n, ('r', 'v', 'x') if n else ('r',), 1)
             for si in range(4) for pi in range(2)
             for m in range(1, R + 1) for n in range(R + 1)]
    full.sort(key=lambda t: (-(t[2] + t[3]), t))
    faults = [(si, m, n) for si in range(4) for m in range(b['fault'] + 1)
              for n in range(b['fault'] + 1) if m or n]
    faults.sort(key=lambda t: (-(t[1] + t[2]), t))
    longs = []
    for L in b['long']:
        nshard = max(1, 1 << max(0, 2 * (L - 1) - 15))
        nshard = min(nshard, 1 << (L - 1))
        for si in range(4):
            for pi in range(2 if L <= b['both_pairs_to'] else 1):
                longs += [(si, pi, L, s, nshard) for s in range(nshard)]
    longs.sort(key=lambda t: (-t[2], t))
    empties = [(si, pi, L) for si in range(4) for pi in range(2)
               for L in range(1, b['empty'] + 1)]
    kib = []
    for size in SIZES_KIB:
        ncut = len(kib_cuts(ctx, size))
        nshard = max(1, ncut * size // (1 << 20))
        kib += [(si, size, s, nshard) for si in range(4)
                for s in range(nshard)]
    rsa = [(bits, pat, lo, lo + 7) for bits in (1024, 2048)
           for pat in ('zeros', 'ff', 'counter') for lo in range(1, 65, 8)]
    segs = [(si, pi, n, 0) for si in range(4)
            for n in range(1, b['seg'] + 1)
            for pi in range(2 if n <= b['seg_both_pairs'] else 1)]
    segs += [(si, 0, n, 1) for si in range(4)
             for n in range(1, b['seg_over'] + 1)]
    segs.sort(key=lambda t: (-t[2], t))
    seg_kib = []
    for size in SIZES_KIB:
        ncase = len(seg_kib_cases(ctx, size))
        nshard = max(1, ncase * size // (1 << 20))
        seg_kib += [(si, size, s, nshard) for si in range(4)
                    for s in range(nshard)]
    ctx.pmap(w_long, longs)
    ctx.pmap(w_full, full)
    ctx.pmap(w_seg, segs)
    ctx.pmap(w_kib, kib)
    ctx.pmap(w_seg_kib, seg_kib)
    ctx.pmap(w_empty, empties)
    ctx.pmap(w_fault, faults)
    ctx.pmap(w_rsa, rsa)
    # part C: harness executions, only ever inside workers
    tasks_c = [(style, k, v, ti, 'plain', 0)
               for style in ('same', 'separate')
               for k in (1, 2, 3) for v in VERSIONS_C
               for ti in range(len(TOKENS_C))
               if not (style == 'separate' and k == 1)]
    tasks_c += [('same', k, v, ti, variant, 0)
                for variant in ('burst', 'listener') for k in (1, 2)
                for v in VERSIONS_Q for ti in (1, 3)]
    tasks_c += [('same', k, v, 1, 'plain', L) for k in (1, 2)
                for v in VERSIONS_RAW for L in range(1, RAW_MAX + 1)]
    ctx.pmap(w_c, tasks_c, chunksize=2)
    tasks_h = hist_tasks(ctx)
    ctx.pmap(w_h, tasks_h, chunksize=2)
    _settle_violations(ctx)
    ctx.extra['bounds'] = {
        'full_product_max_len': F, 'long_lengths': list(b['long']),
        'retain_product_max_len': R, 'fault_max_len': b['fault'],
        'kib_partitions': {str(s): len(kib_cuts(ctx, s)) for s in SIZES_KIB},
        'seg_max_len': b['seg'],
        'seg_kib_cases': {str(s): len(seg_kib_cases(ctx, s))
                          for s in SIZES_KIB},
        'rsa_cases': len(rsa) * 8 * 4, 'login_scenarios': len(tasks_c),
        'login_histories': len(tasks_h),
        'login_histories_with_read_segmentation': sum(
            1 for t in tasks_h if t[4] is not None)}
    # vacuity guards
    need = ['A interleaving: directions alternate every call',
            'A out: every call 1 byte', 'A in: every call 1 byte',
            'A in: read and recv alternate on the shared decryptor',
            'A empty: send(b"") inserted', RETAIN, RETAIN_LATER,
            'A KiB: raw socket keeps the objects handed to send()',
            F_REPORTED, 'A-fault: a send fails after earlier sends completed',
            'A-fault: a send fails and more were to follow'] + [
            'A-fault: %s raised' % w for w in WHERE_TEXT.values()] + [
            'A-fault: %s' % f[0] for f in FAULTS] + [
            'B token differs from secret (swap visible)',
            'C 3 consecutive login(s), same Connection object',
            'C a queued packet waits when the encryption request is handled '
            '(plugin request + encryption request in one burst)',
            'C installed wrappers: raw stream length %d' % RAW_MAX,
            SEG_SHORT, 'A-seg: short raw reads and two or more requests',
            'A-seg stream length %d' % b['seg'],
            'A-seg KiB: 4096 bytes in many segments',
            H_SECOND, H_THIRD, H_FROM_LOGIN, H_FROM_EARLY, H_FROM_PLAY,
            H_HANDLER, H_SHORT] + ['C-hist: login ending ' + e for e in ENDS]
    need += [H_SHORT + ', policy %s' % ' '.join(map(str, pol))
             for pol in SEG_POLICIES]
    missing = [k for k in need if not ctx.classes.get(k)]
    if missing and not ctx.violations:   # (a broken tree may not get there)
        raise ToolError('vacuity guard: classes never hit: %r' % missing)


def replay(ctx, case):
    ctx.count()
    coll = _Coll()
    if 'choices' in case:
        x = conc_factory(case['params'])(list(case['choices']), None, None,
                                         'replay')
        res = x.result or {}
        viol = list(res.get('violations', ()))
        if x.failure is not None:
            viol.append((x.failure[0], '%s: %s' % x.failure))
        for key, what in viol:
            ctx.violation('%s %s' % (case['params']['kind'], key), what, case)
        return
    if case['part'] == 'A':
        flt = case.get('fault')
        _judge_a(coll, case.get('tag', 'replay'), env(), case['secret_name'],
                 case['secret'], case['out_plain'], case['in_plain'],
                 tuple(case['out_parts']),
                 tuple((k, n) for k, n in case['in_calls']),
                 tuple(case['order']), bool(case.get('retain')),
                 (flt[0], flt[1], flt[2]) if flt else None)
    elif case['part'] == 'A-seg':
        _judge_seg(coll, case.get('tag', 'replay'), env(),
                   case['secret_name'], case['secret'], case['in_plain'],
                   tuple(case['segs']), tuple(case['asks']), case['style'])
    elif case['part'] == 'C-hist':
        ctx.seed = case.get('seed', ctx.seed)
        pol = case.get('policy')
        x, res = run_h(ctx, tuple(case['history']), case['version'],
                       case['token_index'], case['mode'],
                       tuple(pol) if pol else None)
        for key, what in res:
            coll.add(key, (0,), what, case)
    elif case['part'] == 'B':
        res, _ = judge_rsa(env(), case['bits'], case['pattern'], case['n'],
                           case['secret_name'], case['secret'])
        for key, what in res:
            coll.add(key, (0,), what, case)
    elif case['part'] == 'C':
        ctx.seed = case.get('seed', ctx.seed)
        x, res = run_c(ctx, case['style'], case['k'], case['version'],
                       case['token_index'], case.get('variant', 'plain'),
                       case.get('raw_len', 0))
        for key, what in res:
            coll.add(key, (0,), what, case)
    coll.flush(ctx)
    ctx.extra.pop('_best', None)
