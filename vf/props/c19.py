"""C19 - Yggdrasil auth token state follows the replies; errors leave it
untouched.

Explicit-state search over the real ``AuthenticationToken``: a state is the
tuple of the five stored fields, a transition is one operation answered by one
scripted reply of a local stand-in for the service (the reply alphabet
includes complete error objects whose text is full of template
metacharacters).  Two overlapping calls on one token (or on two tokens) are
explored under all thread schedules within a preemption bound.  Every
transition is one call into pyCraft; the verdict comes from a small reference
(a table of
endpoint / payload per operation and a classifier of reply bodies written from
the wiki.vg "Authentication" page) that shares no code with pyCraft.
"""
import contextlib
import io
import itertools
import json
import random
import threading
import uuid as _real_uuid

import requests as _real_requests
import requests.adapters
import urllib3.response

from vf.runner import use_repo, ToolError
from vf import explore, interleave

LEVEL = 'model_checking'
RULE = ('Breadth-first search to a fixpoint over token states (username, '
        'access_token, client_token, profile.id_, profile.name; any other '
        'attribute found in vars() of the token or its profile is added to '
        'the state, and such a state is re-created by replaying the event '
        'history that reached it), from all 32 presence subsets of the five '
        'fields, under the alphabet {authenticate(invalidate_previous=F), '
        'authenticate(invalidate_previous=T), refresh, validate, invalidate, '
        'join, sign_out} x scripted reply (status, body, content type) = 204 '
        'empty plus the full product of statuses {200, 400, 403, 404, 500, '
        'one seed-derived 4xx/5xx code} (quick) / {200, 400, 401, 403, 404, '
        '405, 415, 429, 500, 502, 503, two seed-derived codes} (thorough) x '
        'body shapes {valid result, full error object, error object without '
        'cause, only "error", only "errorMessage", object without error '
        'keys, {}, HTML, text, empty, JSON null / true / number / string / '
        'string containing both key names / [] / array containing both key '
        'names; thorough adds truncated JSON and non-UTF-8 bytes}; plus '
        'complete error objects whose strings are text that template '
        'engines trip over - 13 strings ("{0}", "{}", "{name}", a lone '
        '"{", a lone "}", "%s", "%(x)s", "%", text with backslashes, text '
        'with LF / CR LF / TAB, non-ASCII text (Cyrillic, CJK, Hebrew, a '
        'non-BMP character), the empty string, a 2049-character string) x '
        'position {error, errorMessage, cause} (the other two fields plain) '
        '= 39 bodies x statuses {403, 500} (quick) / every status >= 400 of '
        'the thorough list incl. the seed-derived codes (thorough), for '
        'every operation and state like '
        'any other reply: the fields must come back verbatim.  '
        '"Present" means a non-empty string, "absent" means None: the '
        'statement does not say whether an empty string counts as present '
        '(the code itself is inconsistent: truthiness for the tokens, "is '
        'not None" for the profile), so empty strings are not used as field '
        'values.  Each (state, operation, reply) is executed on a fresh real '
        'token carrying the state and is one distinct non-trivial case '
        '(distinct by construction); `authenticated` is compared in every '
        'state.  Quick: in-process requests transport adapter (real request '
        'preparation, real Response.json()/.text, no sockets).  Thorough: '
        'every transition is run a second time against a real http.server '
        'on 127.0.0.1 with both base URLs rebound.  Histories: the shortest '
        'event history of every state, and every operation sequence of '
        'length 2 from 4 start states (quick) / length 2 from all 32 start '
        'states and length 3 from 4 start states (thorough) over 7 '
        'operations x 4 replies, are executed on ONE live token object and '
        'compared step by step (request, outcome, fields) with what a fresh '
        'token carrying the same fields does.  '
        'CONCURRENT (vf.interleave: every source line of '
        'minecraft/authentication.py a scheduling point, two agents, one '
        'call each, the scripted reply the same for both, every request '
        'attributed to the thread that made it): ALL schedules within the '
        'preemption bound.  Quick: join(id1) || join(id2) on ONE shared '
        'authenticated token answered by 204, <= 2 preemptions; the same '
        'answered by 403 full error object, join(id1) || join(id2) on two '
        'token objects with different credentials, join || validate and '
        'join || invalidate on one token, <= 1 preemption each.  Thorough: '
        'the first at <= 3, the others at <= 2, plus join || join with the '
        'same id, join || join-b answered by 500 with a "{0}" error text, '
        'two tokens answered by 403, join || sign_out, validate || '
        'invalidate, validate || validate (403), invalidate || join (404 '
        'JSON null), all <= 2.  Only operations that store nothing are '
        'raced (with authenticate / refresh the expected payload of the '
        'other call would depend on the schedule).  Each call is judged by '
        'the same oracle as a sequential transition (its own request: '
        'exactly one POST, endpoint, content type, documented payload '
        'built from ITS argument and the token fields; its own outcome) '
        'and must equal what the same call does alone (requests as JSON '
        'values, outcome, the five stored fields).  This is where two '
        'overlapping logins sharing one token are judged (the server hash '
        'that reaches the session service is the serverId of the posted '
        'body): it sits in C19 rather than C17 because C19 states "each '
        'operation posts the documented JSON payload" - a per-call '
        'obligation on AuthenticationToken, whose reference payload table '
        'and HTTP stand-in live here - while C17 is about the value of the '
        'hash for given inputs and observes the string handed to join().  '
        'The schedule section runs only when the sequential sections '
        'report nothing.')
ASSUMPTIONS = [
    'documented endpoints/payloads are those of wiki.vg Authentication '
    '(authserver.mojang.com/{authenticate,refresh,validate,invalidate,'
    'signout}, sessionserver.mojang.com/session/minecraft/join); for join '
    'selectedProfile may be either the {id,name} object (old authlib, what '
    'pyCraft sends) or the bare profile id (current documentation)',
    'an "error object" is a JSON object with both "error" and '
    '"errorMessage" ("cause" optional); for an object with only one of the '
    'two, either a malformed-message error or an error carrying the one '
    'field is accepted',
    'not judged (statement is silent): outcome of authenticate/refresh on a '
    '2xx reply that is not a valid result; return values of sign_out / '
    'invalidate / join; the payload values of invalidate when tokens are absent; state after '
    'validate',
    'observed, not judged: invalidate / join / sign_out answered by a 2xx '
    'reply (on the unchanged tree sign_out raises YggdrasilError "[204] '
    'Malformed error message" on 204, its documented success reply; see '
    'the "unjudged: ..." classes in the evidence)',
    'refresh / validate with an absent token must refuse without contact '
    '(a null accessToken is not the documented payload); ValueError or '
    'YggdrasilError are both accepted as the refusal',
    'the code under test reaches the network only through the module '
    'global `requests` of minecraft/authentication.py',
    'concurrent section: a thread switch can happen between any two source '
    'lines of minecraft/authentication.py (not inside a line, not inside '
    'requests/json); calls on one token from two threads are within the '
    'intended use (LoginReactor calls join on the networking thread of each '
    'Connection, and one token may be given to several Connections)',
    'the in-process adapter is bound to real HTTP in the thorough tier: '
    'both transports must yield the same normalised observation for every '
    'transition (count reported as adapter_vs_http_divergences)',
]

FIELDS = ('username', 'access_token', 'client_token', 'profile.id_',
          'profile.name')
INIT = ('u0', 'at0', 'ct0', 'pid0', 'pn0')

DOC_AUTH = 'https://authserver.mojang.com'
DOC_SESSION = 'https://sessionserver.mojang.com/session/minecraft'

OPS = ('authenticate', 'authenticate-inv', 'refresh', 'validate',
       'invalidate', 'join', 'sign_out')
#            base       endpoint        documented success status
TABLE = {
    'authenticate':     ('auth', 'authenticate', 200),
    'authenticate-inv': ('auth', 'authenticate', 200),
    'refresh':          ('auth', 'refresh', 200),
    'validate':         ('auth', 'validate', 204),
    'invalidate':       ('auth', 'invalidate', 204),
    'sign_out':         ('auth', 'signout', 204),
    'join':             ('session', 'join', 204),
    'join-b':           ('session', 'join', 204),   # (concurrent section only)
}
A_USER, A_PASS = 'user1', 'pw1é"\\ x'
S_USER, S_PASS = 'so-user', 'so-pass'
SERVER_ID = '-7c9d5b0044c130109a5d7b5fb5c317c02b4e28c1'
SERVER_ID_B = '4ed1f46bbe04bc756bcb17c0c7ce3e4632f06a48'   # op 'join-b'

VALID = {
    'accessToken': 'AT1', 'clientToken': 'CT1',
    'availableProfiles': [{'id': 'pidX', 'name': 'pnX'},
                          {'id': 'PID1', 'name': 'PN1'}],
    'selectedProfile': {'id': 'PID1', 'name': 'PN1'},
    'user': {'id': 'uid', 'properties': []},
}
ERR_FULL = {'error': 'ForbiddenOperationException',
            'errorMessage': 'Ungültige Anmeldedaten. Invalid username '
                            'or password.',
            'cause': 'UserMigratedException'}
ERR_NOCAUSE = {'error': 'Method Not Allowed',
               'errorMessage': 'The method specified in the request is not '
                               'allowed for the resource identified by the '
                               'request URI'}
JS = 'application/json'


def _j(obj):
    return json.dumps(obj, ensure_ascii=False).encode('utf-8')


# label -> (body bytes, content type)
BODIES = [
    ('valid-result', _j(VALID), JS),
    ('error-full', _j(ERR_FULL), JS + '; charset=utf-8'),
    ('error-nocause', _j(ERR_NOCAUSE), JS),
    ('error-only-error', _j({'error': 'Not Found'}), JS),
    ('error-only-message', _j({'errorMessage': 'something failed'}), JS),
    ('object-other', _j({'goldfish': 'are pretty.'}), JS),
    ('empty-object', b'{}', JS),
    ('nonjson-html', b'<html><body><h1>404 Not Found</h1></body></html>',
     'text/html'),
    ('nonjson-text', b'Internal Server Error', 'text/plain'),
    ('empty', b'', None),
    ('json-null', b'null', JS),
    ('json-true', b'true', JS),
    ('json-number', b'42', JS),
    ('json-string', b'"oops"', JS),
    ('json-string-keys', b'"error errorMessage"', JS),
    ('json-array', b'[]', JS),
    ('json-array-keys', b'["error", "errorMessage"]', JS),
]
BODIES_THOROUGH = [
    ('json-truncated', b'{"error": "x", "errorMess', JS),
    ('nonutf8', b'\xff\xfe\x00\x9f garbage \xc3', 'application/octet-stream'),
]

# Complete error objects whose strings hold text that template engines trip
# over (the service's text is DATA: it must come back verbatim in the error
# fields whatever it looks like).  One such string per body, in one of the
# three positions, the other two fields plain.
META = [
    ('brace-index', '{0}'),
    ('brace-empty', '{}'),
    ('brace-name', '{name}'),
    ('brace-open', '{'),
    ('brace-close', '}'),
    ('percent-s', '%s'),
    ('percent-map', '%(x)s'),
    ('percent', '%'),
    ('backslash', 'back\\slash\\'),
    ('newline', 'first line\nsecond\r\n\tline'),
    ('non-ascii', 'Ошибка 错误 א \U0001F600 é'),
    ('empty-string', ''),
    ('long', ''.join('%04d|' % i for i in range(410))[:2049]),
]
META_PLAIN = {'error': 'ForbiddenOperationException',
              'errorMessage': 'Invalid credentials.',
              'cause': 'UserMigratedException'}
META_POSITIONS = ('error', 'errorMessage', 'cause')


def _meta_bodies():
    out = []
    for pos in META_POSITIONS:
        for name, text in META:
            obj = dict(META_PLAIN)
            obj[pos] = text
            out.append(('errobj %s=%s' % (pos, name), _j(obj), JS))
    return out


BODIES_META = _meta_bodies()
META_STATUSES_QUICK = (403, 500)
BODY = dict((k, (b, c)) for k, b, c in BODIES + BODIES_THOROUGH + BODIES_META)

QUICK_STATUSES = (200, 400, 403, 404, 500)
THOROUGH_STATUSES = (200, 400, 401, 403, 404, 405, 415, 429, 500, 502, 503)
SEQ_REPLIES = [(200, 'valid-result'), (204, 'empty'), (403, 'error-full'),
               (404, 'json-null')]


def replies_for(ctx):
    """(204, empty) plus the full product status x body shape."""
    rnd = random.Random(ctx.seed)
    pool = [c for c in list(range(400, 452)) + list(range(500, 512))
            if c not in THOROUGH_STATUSES]
    if ctx.thorough:
        extra = sorted(rnd.sample(pool, 2))
        statuses = list(THOROUGH_STATUSES) + extra
        bodies = BODIES + BODIES_THOROUGH
    else:
        extra = sorted(rnd.sample(pool, 1))
        statuses = list(QUICK_STATUSES) + extra
        bodies = BODIES
    ctx.extra['seed_status_codes'] = extra
    pairs = [(204, 'empty')]
    for st in statuses:
        for label, _b, _c in bodies:
            pairs.append((st, label))
    for st in (statuses if ctx.thorough else META_STATUSES_QUICK):
        if st >= 400:
            for label, _b, _c in BODIES_META:
                pairs.append((st, label))
    random.Random(ctx.seed * 7919 + 1).shuffle(pairs)
    return pairs


def reply_of(pair):
    status, label = pair
    body, ctype = BODY[label]
    return {'status': status, 'label': label, 'body': body, 'ctype': ctype}


# -- reference ---------------------------------------------------------------

def classify(body):
    """Reference classification of a reply body (stdlib json only)."""
    try:
        v = json.loads(body.decode('utf-8'))
    except (ValueError, UnicodeDecodeError):
        return 'nonjson', None
    if not isinstance(v, dict):
        return 'nonobject', v
    e, m = 'error' in v, 'errorMessage' in v
    if e and m:
        return 'errobj', v
    if e or m:
        return 'partial', v
    sp = v.get('selectedProfile')
    if ('accessToken' in v and 'clientToken' in v and isinstance(sp, dict)
            and 'id' in sp and 'name' in sp):
        return 'result', v
    return 'object', v


def present(x):
    return x is not None


def ref_authenticated(st):
    return all(present(x) for x in st[:5])


def in_domain(st):
    return all(x is None or (isinstance(x, str) and x != '') for x in st[:5])


def same(a, b):
    """Strict JSON equality (no 1 == True == 1.0)."""
    if type(a) is not type(b):
        return False
    if isinstance(a, dict):
        return a.keys() == b.keys() and all(same(a[k], b[k]) for k in a)
    if isinstance(a, list):
        return len(a) == len(b) and all(same(x, y) for x, y in zip(a, b))
    return a == b


def ref_expect_request(op, st):
    """-> ('refuse', allowed exception kinds) | ('either', payloads) |
          ('post', payloads, generated_client_token?)
    payloads: list of acceptable payload dicts."""
    u, at, ct, pid, pn = st[:5]
    if op in ('authenticate', 'authenticate-inv'):
        p = {'agent': {'name': 'Minecraft', 'version': 1},
             'username': A_USER, 'password': A_PASS}
        if op == 'authenticate':
            if ct is None:
                return ('post', [p], True)
            p['clientToken'] = ct
        return ('post', [p], False)
    if op == 'refresh':
        if at is None or ct is None:
            return ('refuse', ('ValueError', 'YggdrasilError'))
        return ('post', [{'accessToken': at, 'clientToken': ct}], False)
    if op == 'validate':
        if at is None:
            return ('refuse', ('ValueError', 'YggdrasilError'))
        return ('post', [{'accessToken': at}], False)
    if op == 'invalidate':
        p = [{'accessToken': at, 'clientToken': ct}]
        if at is None or ct is None:
            return ('either', p, False)      # payload values not judged
        return ('post', p, False)
    if op == 'sign_out':
        return ('post', [{'username': S_USER, 'password': S_PASS}], False)
    if op in ('join', 'join-b'):
        if not ref_authenticated(st):
            return ('refuse', ('YggdrasilError',))
        sid = SERVER_ID if op == 'join' else SERVER_ID_B
        return ('post', [
            {'accessToken': at, 'selectedProfile': {'id': pid, 'name': pn},
             'serverId': sid},
            {'accessToken': at, 'selectedProfile': pid,
             'serverId': sid}], False)
    raise ToolError('unknown op %r' % (op,))


# -- stand-ins ---------------------------------------------------------------

class UuidShim(object):
    """Deterministic uuid4(); everything else is the real module."""

    def __init__(self):
        self.n = 0

    def __getattr__(self, name):
        return getattr(_real_uuid, name)

    def uuid4(self):
        self.n += 1
        return _real_uuid.UUID(int=(0xC19 << 112) | (4 << 76) | (2 << 62)
                               | self.n)


class ScriptAdapter(requests.adapters.BaseAdapter):
    """Transport adapter: records the PreparedRequest, answers from script."""

    def __init__(self, env):
        super(ScriptAdapter, self).__init__()
        self.env = env
        self.builder = requests.adapters.HTTPAdapter()

    def send(self, request, stream=False, timeout=None, verify=True,
             cert=None, proxies=None):
        body = request.body
        if body is None:
            body = b''
        elif isinstance(body, str):
            body = body.encode('utf-8')
        elif not isinstance(body, (bytes, bytearray)):
            body = b''.join(body)
        self.env.log.append({
            'method': request.method, 'url': request.url,
            'thread': threading.get_ident(),
            'body': bytes(body),
            'headers': dict((k.lower(), v)
                            for k, v in request.headers.items())})
        r = self.env.reply
        hdrs = {}
        if r['ctype']:
            hdrs['Content-Type'] = r['ctype']
        data = r['body']
        if r['status'] == 204:
            data = b''
        else:
            hdrs['Content-Length'] = str(len(data))
        raw = urllib3.response.HTTPResponse(
            body=io.BytesIO(data), headers=hdrs, status=r['status'],
            reason='scripted', preload_content=False, decode_content=False)
        return self.builder.build_response(request, raw)

    def close(self):
        pass


class RequestsShim(object):
    """What minecraft.authentication sees as ``requests``."""

    def __init__(self, make_session):
        self._make = make_session
        self._session = make_session()

    def __getattr__(self, name):
        return getattr(_real_requests, name)

    def Session(self):
        return self._make()

    session = Session

    def request(self, method, url, **kw):
        return self._session.request(method=method, url=url, **kw)

    def post(self, url, data=None, json=None, **kw):
        return self.request('post', url, data=data, json=json, **kw)

    def get(self, url, params=None, **kw):
        return self.request('get', url, params=params, **kw)

    def put(self, url, data=None, **kw):
        return self.request('put', url, data=data, **kw)

    def patch(self, url, data=None, **kw):
        return self.request('patch', url, data=data, **kw)

    def delete(self, url, **kw):
        return self.request('delete', url, **kw)

    def head(self, url, **kw):
        return self.request('head', url, **kw)


def _make_handler(env):
    import http.server

    class Handler(http.server.BaseHTTPRequestHandler):
        def _any(self):
            n = int(self.headers.get('Content-Length') or 0)
            body = self.rfile.read(n) if n else b''
            env.log.append({
                'method': self.command, 'url': self.path, 'body': body,
                'headers': dict((k.lower(), v)
                                for k, v in self.headers.items())})
            r = env.reply
            self.send_response(r['status'])
            if r['ctype']:
                self.send_header('Content-Type', r['ctype'])
            if r['status'] != 204:
                self.send_header('Content-Length', str(len(r['body'])))
            self.end_headers()
            if r['status'] != 204 and self.command != 'HEAD':
                self.wfile.write(r['body'])

        do_POST = do_GET = do_PUT = do_DELETE = do_PATCH = do_HEAD = _any

        def log_message(self, *a):
            pass
    return Handler


class Env(object):
    """Rebinds the module globals of minecraft.authentication; restores."""

    def __init__(self, transport):
        self.transport = transport
        self.log = []
        self.reply = None
        self.server = None

    def __enter__(self):
        use_repo()
        import minecraft.authentication as A
        import minecraft.exceptions as X
        self.A, self.X = A, X
        self.saved = dict((k, getattr(A, k)) for k in
                          ('requests', 'uuid', 'AUTH_SERVER',
                           'SESSION_SERVER'))
        self.sessions = []
        if self.transport == 'adapter':
            def make():
                s = _real_requests.Session()
                s.trust_env = False
                ad = ScriptAdapter(self)
                s.mount('https://', ad)
                s.mount('http://', ad)
                self.sessions.append(s)
                return s
            self.auth_base, self.session_base = DOC_AUTH, DOC_SESSION
            if (A.AUTH_SERVER, A.SESSION_SERVER) != (DOC_AUTH, DOC_SESSION):
                # judged through the URL of every request, nothing to do here
                pass
        else:
            import http.server
            self.server = http.server.HTTPServer(('127.0.0.1', 0),
                                                 _make_handler(self))
            port = self.server.server_address[1]
            self.thread = threading.Thread(
                target=self.server.serve_forever, kwargs={
                    'poll_interval': 0.05})
            self.thread.daemon = True
            self.thread.start()

            def make():
                s = _real_requests.Session()
                s.trust_env = False
                self.sessions.append(s)
                return s
            base = 'http://127.0.0.1:%d' % port
            A.AUTH_SERVER = base + '/auth'
            A.SESSION_SERVER = base + '/session/minecraft'
            self.auth_base, self.session_base = ('/auth',
                                                 '/session/minecraft')
        A.requests = RequestsShim(make)
        A.uuid = UuidShim()
        return self

    def __exit__(self, *exc):
        for k, v in self.saved.items():
            setattr(self.A, k, v)
        for s in self.sessions:
            try:
                s.close()
            except Exception:
                pass
        if self.server is not None:
            self.server.shutdown()
            self.server.server_close()
            self.thread.join(5)
        return False

    # -- token <-> state ---------------------------------------------
    def build(self, st):
        t = self.A.AuthenticationToken(username=st[0], access_token=st[1],
                                       client_token=st[2])
        t.profile.id_ = st[3]
        t.profile.name = st[4]
        return t

    def materialise(self, st, hist=None):
        """A real token in state st.  Five plain fields: built directly
        (validated by the history runs); anything richer: by replaying the
        event history that reached it."""
        if len(st) == 5:
            return self.build(st)
        if not hist:
            raise ToolError('state %r needs its history' % (st,))
        start, events = hist
        t = self.build(start)
        for op, pair in events:
            self.call(t, op, reply_of(pair))
        if self.read(t) != st:
            raise ToolError('history %r does not reproduce state %r'
                            % (hist, st))
        return t

    def read(self, t):
        five = (getattr(t, 'username', '<unset>'),
                getattr(t, 'access_token', '<unset>'),
                getattr(t, 'client_token', '<unset>'))
        p = getattr(t, 'profile', None)
        five += (getattr(p, 'id_', '<unset>'), getattr(p, 'name', '<unset>'))
        extra = []
        try:
            for k, v in sorted(vars(t).items()):
                if k not in ('username', 'access_token', 'client_token',
                             'profile'):
                    extra.append(('token.' + k, repr(v)))
            for k, v in sorted(vars(p).items()):
                if k not in ('id_', 'name'):
                    extra.append(('profile.' + k, repr(v)))
        except TypeError:
            extra.append(('vars', 'unavailable'))
        five = tuple(x if (x is None or isinstance(x, str)) else
                     '<%s %r>' % (type(x).__name__, x) for x in five)
        return five + (tuple(extra),) if extra else five

    def call(self, t, op, reply):
        """One operation on token t answered by `reply`; -> observation."""
        self.reply = reply
        del self.log[:]
        self.A.uuid.n = 0          # same generated token in every call
        out = self.invoke(t, op)
        return {'requests': [dict(r) for r in self.log], 'out': out,
                'after': self.read(t)}

    def invoke(self, t, op):
        """The call itself; -> outcome record."""
        try:
            if op == 'authenticate':
                ret = t.authenticate(A_USER, A_PASS)
            elif op == 'authenticate-inv':
                ret = t.authenticate(A_USER, A_PASS, invalidate_previous=True)
            elif op == 'refresh':
                ret = t.refresh()
            elif op == 'validate':
                ret = t.validate()
            elif op == 'invalidate':
                ret = t.invalidate()
            elif op == 'sign_out':
                ret = t.sign_out(S_USER, S_PASS)
            elif op == 'join':
                ret = t.join(SERVER_ID)
            elif op == 'join-b':
                ret = t.join(SERVER_ID_B)
            else:
                raise ToolError('unknown op %r' % (op,))
            out = {'kind': 'return', 'is_true': ret is True,
                   'truthy': bool(ret), 'repr': repr(ret)[:60]}
        except ToolError:
            raise
        except Exception as e:
            out = {'kind': 'raise', 'type': type(e).__name__,
                   'ygg': isinstance(e, self.X.YggdrasilError),
                   'str': str(e)[:300]}
            if out['ygg']:
                for f in ('status_code', 'yggdrasil_error',
                          'yggdrasil_message', 'yggdrasil_cause'):
                    out[f] = getattr(e, f, '<unset>')
        return out

    def authenticated(self, t):
        try:
            return bool(t.authenticated)
        except Exception as e:
            return 'raised %s' % type(e).__name__


def summary(obs):
    o = obs['out']
    if o['kind'] == 'return':
        s = 'ret:%s' % ('True' if o['is_true'] else
                        'truthy' if o['truthy'] else 'falsy')
    else:
        s = 'raise:%s' % o['type']
        if o['ygg']:
            s += ':%r:%r:%r:%r' % (o['status_code'], o['yggdrasil_error'],
                                   o['yggdrasil_message'],
                                   o['yggdrasil_cause'])
    reqs = tuple((r['method'], r['url'].rsplit('/', 1)[-1], r['body'],
                  r['headers'].get('content-type')) for r in obs['requests'])
    return (reqs, s, obs['after'])


# -- the oracle --------------------------------------------------------------

def judge(env, st, op, reply, obs):
    """-> list of (kind, text).  kind is short and value-free (goes into the
    violation key); text explains expected vs got."""
    bad = []
    out, reqs, after = obs['out'], obs['requests'], obs['after']
    base, endpoint, _documented_ok = TABLE[op]
    exp = ref_expect_request(op, st)
    status = reply['status']
    is_error = status >= 400
    shape, val = classify(reply['body']) if status != 204 else ('nonjson',
                                                                None)

    def b(kind, text):
        bad.append((kind, text))

    # 1. contact or refusal
    if exp[0] == 'refuse' or (exp[0] == 'either' and not reqs):
        if reqs:
            b('contacted the service',
              'token state %r: %s must refuse without contacting the '
              'service, but it sent %s %s %r'
              % (st, op, reqs[0]['method'], reqs[0]['url'],
                 reqs[0]['body'][:120]))
            return bad
        allowed = exp[1] if exp[0] == 'refuse' else ('ValueError',
                                                     'YggdrasilError')
        if out['kind'] != 'raise':
            b('no refusal', 'token state %r: %s sent nothing and returned %s;'
              ' expected it to raise %s' % (st, op, out['repr'],
                                            '/'.join(allowed)))
        elif not ((out['ygg'] and 'YggdrasilError' in allowed) or
                  out['type'] in allowed):
            b('refusal raises ' + out['type'],
              'token state %r: %s refused with %s(%s); expected %s'
              % (st, op, out['type'], out['str'], '/'.join(allowed)))
        if after[:5] != st[:5]:
            b('refusal altered credentials',
              '%s refused but stored fields went %r -> %r' % (op, st, after))
        return bad

    # 2. the request
    if len(reqs) != 1:
        b('%d requests' % len(reqs),
          '%s in state %r made %d requests, expected exactly one POST to '
          '.../%s (outcome: %s)' % (op, st, len(reqs), endpoint,
                                    out.get('type') or out.get('repr')))
        if not reqs:
            return bad
    rq = reqs[0]
    want_url = (env.auth_base if base == 'auth' else env.session_base) \
        + '/' + endpoint
    if rq['method'] != 'POST':
        b('method', '%s used HTTP method %s, expected POST' % (op,
                                                              rq['method']))
    if rq['url'] != want_url:
        b('endpoint', '%s posted to %s, documented endpoint is %s'
          % (op, rq['url'], want_url))
    ct = (rq['headers'].get('content-type') or '').split(';')[0].strip()
    if ct.lower() != 'application/json':
        b('content type', '%s sent content-type %r, expected '
          'application/json' % (op, rq['headers'].get('content-type')))
    try:
        payload = json.loads(rq['body'].decode('utf-8'))
    except (ValueError, UnicodeDecodeError):
        payload = None
        b('payload not JSON', '%s sent body %r' % (op, rq['body'][:200]))
    if payload is not None:
        got = payload
        if exp[2] and isinstance(payload, dict):
            got = dict(payload)
            gen = got.pop('clientToken', None)
            if not (isinstance(gen, str) and gen):
                b('payload', '%s (no stored client token, invalidate_previous'
                  '=False) must send a generated clientToken, sent %r'
                  % (op, payload))
        judged_values = not (exp[0] == 'either')
        if judged_values:
            if not any(same(got, w) for w in exp[1]):
                b('payload', '%s in state %r sent %r, documented payload is '
                  '%r' % (op, st, payload, exp[1][0]))
        elif not (isinstance(got, dict) and
                  set(got) == set(exp[1][0])):
            b('payload', '%s sent keys %r, documented keys are %r'
              % (op, sorted(got) if isinstance(got, dict) else got,
                 sorted(exp[1][0])))

    # 3. outcome
    if op == 'validate':
        if status == 204:
            if not (out['kind'] == 'return' and out['is_true']):
                b('validate not True on 204',
                  'validate answered by 204 gave %s, expected True'
                  % (out.get('repr') or out.get('type')))
        else:
            if out['kind'] == 'return':
                if out['truthy']:
                    b('validate true without 204',
                      'validate answered by %d returned %s; it may return '
                      'true only for 204' % (status, out['repr']))
            elif not out['ygg']:
                b('validate raises ' + out['type'],
                  'validate answered by %d %s raised %s(%s)'
                  % (status, reply['label'], out['type'], out['str']))
        return bad

    if is_error:
        if out['kind'] != 'raise':
            b('no error raised', '%s answered by %d %s returned %s, expected '
              'YggdrasilError' % (op, status, reply['label'], out['repr']))
        elif not out['ygg']:
            b('escapes as ' + out['type'],
              '%s answered by %d with body %r: %s(%s) escaped; expected a '
              'YggdrasilError with status_code %d and %s'
              % (op, status, reply['body'][:80], out['type'], out['str'],
                 status, 'the error fields' if shape == 'errobj'
                 else "a 'malformed' message"))
        else:
            if out['status_code'] != status or \
                    isinstance(out['status_code'], bool):
                b('status_code wrong', '%s answered by %d: error.status_code '
                  '= %r' % (op, status, out['status_code']))
            malformed = 'malformed' in out['str'].lower()
            if shape == 'errobj':
                want = (val['error'], val['errorMessage'], val.get('cause'))
                got = (out['yggdrasil_error'], out['yggdrasil_message'],
                       out['yggdrasil_cause'])
                if not same(list(want), list(got)):
                    b('error fields wrong',
                      '%s answered by %d %r: (yggdrasil_error, '
                      'yggdrasil_message, yggdrasil_cause) = %r, expected %r'
                      % (op, status, val, got, want))
            elif shape == 'partial':
                carried = all(
                    out[f] == val[k] for f, k in
                    (('yggdrasil_error', 'error'),
                     ('yggdrasil_message', 'errorMessage')) if k in val)
                invented = any(
                    out[f] is not None for f, k in
                    (('yggdrasil_error', 'error'),
                     ('yggdrasil_message', 'errorMessage'),
                     ('yggdrasil_cause', 'cause')) if k not in val)
                if invented or not (malformed or carried):
                    b('partial error object mis-mapped',
                      '%s answered by %d %r: error says %r with fields %r'
                      % (op, status, val, out['str'],
                         (out['yggdrasil_error'], out['yggdrasil_message'],
                          out['yggdrasil_cause'])))
            elif not malformed:
                b('no malformed message',
                  "%s answered by %d with body %r (not an error object): "
                  "error message %r does not say 'malformed'"
                  % (op, status, reply['body'][:80], out['str']))
        if after[:5] != st[:5]:
            b('error altered credentials',
              '%s answered by %d %s: stored fields went %r -> %r, must be '
              'unchanged' % (op, status, reply['label'], st, after))
        return bad

    # non-error replies
    if op in ('authenticate', 'authenticate-inv', 'refresh'):
        if status == 200 and shape == 'result':
            sp = val['selectedProfile']
            want = (A_USER if op != 'refresh' else st[0],
                    val['accessToken'], val['clientToken'], sp['id'],
                    sp['name'])
            if out['kind'] != 'return':
                b('success raises ' + out['type'],
                  '%s answered by 200 valid result raised %s(%s)'
                  % (op, out['type'], out['str']))
            elif not out['truthy']:
                b('success not true', '%s answered by 200 valid result '
                  'returned %s, expected True' % (op, out['repr']))
            if after[:5] != want:
                b('stored values wrong',
                  '%s answered by 200 %r from state %r: stored fields are '
                  '%r, expected %r' % (op, val, st, after[:5], want))
        return bad           # other 2xx shapes: not judged
    # invalidate / join / sign_out on a 2xx reply: the statement is silent;
    # observed (guards(): 'unjudged: ...'), never judged.
    return bad


def outcome_label(op, reply, obs):
    o = obs['out']
    n = len(obs['requests'])
    if o['kind'] == 'return':
        r = 'return %s' % ('True' if o['is_true'] else o['repr'][:12])
    elif o['ygg']:
        r = 'YggdrasilError %s' % (
            'fields' if o['yggdrasil_error'] is not None else
            'malformed' if 'malformed' in o['str'].lower() else 'bare')
    else:
        r = 'raise ' + o['type']
    cls = '2xx' if reply['status'] < 300 else '4xx' \
        if reply['status'] < 500 else '5xx'
    return '%s | %s | req=%d | %s' % (op.split('-')[0], cls, n, r)


def report(ctx, key, what, case):
    """In pool workers violations are collected and re-reported by the parent
    in sorted order, so that the recorded case does not depend on timing."""
    sink = getattr(ctx, 'c19_sink', None)
    if sink is None:
        ctx.violation(key, what, case)
    else:
        sink.append((key, what, case))


def collect(ctx):
    ctx.c19_sink = []


def hand_over(ctx):
    ctx.extra['c19_viol'] = ctx.c19_sink
    ctx.c19_sink = None


def flush(ctx):
    for key, what, case in sorted(ctx.extra.pop('c19_viol', []),
                                  key=lambda r: (r[0], repr(r[2]), r[1])):
        ctx.violation(key, what, case)


def check_transition(ctx, env, st, op, pair, hist=None):
    """Execute and judge one transition; -> observation."""
    reply = reply_of(pair)
    t = env.materialise(st, hist)
    ctx.count()
    ctx.transitions += 1
    obs = env.call(t, op, reply)
    case = {'kind': 'transition', 'transport': env.transport,
            'state': list(st[:5]), 'op': op, 'reply': [pair[0], pair[1]]}
    if len(st) > 5:
        case['start'] = list(hist[0])
        case['events'] = [[o, [p[0], p[1]]] for o, p in hist[1]]
    for kind, text in judge(env, st, op, reply, obs):
        report(ctx, '%s / %s: %s' % (op, pair[1], kind),
               '[%s transport] %s' % (env.transport, text), case)
    ctx.outcome(outcome_label(op, reply, obs))
    return obs


def check_authenticated(ctx, env, st, hist=None):
    if not in_domain(st):
        ctx.cls('state outside the None/non-empty-string domain (unjudged)')
        return
    got = env.authenticated(env.materialise(st, hist))
    want = ref_authenticated(st)
    ctx.cls('state authenticated' if want else 'state not authenticated')
    if got != want:
        missing = [FIELDS[i] for i in range(5) if st[i] is None]
        report(
            ctx, 'authenticated: %s' % (','.join(missing) or 'all present'),
            'token with fields %r (absent: %s) reports authenticated=%r, '
            'expected %r' % (dict(zip(FIELDS, st)), missing or 'none', got,
                             want),
            {'kind': 'authenticated', 'state': list(st[:5])})


def initial_states(ctx):
    out = []
    for mask in itertools.product((False, True), repeat=5):
        out.append(tuple(v if m else None for v, m in zip(INIT, mask)))
    random.Random(ctx.seed).shuffle(out)
    return out


def w_expand(ctx, task):
    """All transitions out of one state."""
    st, hist, replies = task
    collect(ctx)
    out = []
    with Env('adapter') as env:
        check_authenticated(ctx, env, st, hist)
        for op in OPS:
            for pair in replies:
                obs = check_transition(ctx, env, st, op, pair, hist)
                ctx.note_distinct(1)
                guards(ctx, st, op, pair, obs)
                out.append((st, op, pair, summary(obs)))
    ctx.extra['c19_bfs'] = out
    hand_over(ctx)


def bfs(ctx, replies):
    """Level-synchronous BFS to the fixpoint.
    -> (table {(state, op, pair): (summary, next)}, history per state)."""
    table = {}
    hist = {}
    frontier = []
    for s in initial_states(ctx):
        ctx.state(s)
        hist[s] = (s, ())
        frontier.append(s)
    level = 0
    while frontier:
        ctx.pmap(w_expand, [(st, hist[st], replies) for st in frontier])
        flush(ctx)
        nxt = []
        for st, op, pair, summ in sorted(ctx.extra.pop('c19_bfs'),
                                         key=lambda r: repr(r[:3])):
            after = summ[2]
            table[(st, op, pair)] = (summ, after)
            if after not in hist:
                if len(after) > 5:
                    ctx.cls('state with extra attributes reached')
                if not in_domain(after):
                    ctx.cls('state outside the value domain reached')
                if len(hist) >= 2000:
                    raise ToolError('state space does not close '
                                    '(> 2000 states)')
                ctx.state(after)
                h0, evs = hist[st]
                hist[after] = (h0, evs + ((op, pair),))
                nxt.append(after)
        frontier = nxt
        level += 1
    ctx.extra['bfs_levels'] = level
    return table, hist


def guards(ctx, st, op, pair, obs):
    n = len(obs['requests'])
    o = obs['out']
    if op == 'join':
        ctx.cls('join contacted the service' if n else 'join refused '
                'without contact')
    if op in ('refresh', 'validate') and not n:
        ctx.cls('%s refused without contact' % op)
    if op == 'authenticate' and st[2] is None and n:
        ctx.cls('authenticate generated a clientToken')
    if op == 'authenticate-inv' and n:
        ctx.cls('authenticate with invalidate_previous')
    if pair == (200, 'valid-result') and obs['after'] != st and \
            op in ('authenticate', 'authenticate-inv', 'refresh'):
        ctx.cls('success stored new credentials')
    if pair[0] >= 400 and o['kind'] == 'raise' and o['ygg']:
        if o['yggdrasil_cause'] is not None:
            ctx.cls('error with cause')
        elif o['yggdrasil_error'] is not None:
            ctx.cls('error with fields, no cause')
        else:
            ctx.cls('error malformed')
    if pair[1].startswith('errobj ') and n and o['kind'] == 'raise' and \
            o['ygg'] and op != 'validate':
        ctx.cls(C_META)
        ctx.cls('error text class %s in %s' % (
            pair[1].split('=', 1)[1], pair[1].split('=', 1)[0][7:]))
    if pair[0] >= 400 and o['kind'] == 'raise' and not o['ygg'] and n:
        ctx.cls('error reply escaped as a foreign exception')
    if pair[0] < 300 and o['kind'] == 'raise' and n and \
            pair != (200, 'valid-result'):
        ctx.cls('2xx reply raised (%s)' % o['type'])
    if op in ('invalidate', 'join', 'sign_out') and pair[0] < 300 and n:
        ctx.cls('unjudged: %s on %d %s' % (
            op, pair[0], 'raised ' + o['type'] if o['kind'] == 'raise'
            else 'returned'))
    if op == 'validate' and n:
        ctx.cls('validate on %s' % ('204' if pair[0] == 204 else 'non-204'))


C_META = 'error object whose text holds template metacharacters raised ' \
    'YggdrasilError'
REQUIRED_CLASSES = (
    C_META,
    'state authenticated', 'state not authenticated',
    'join contacted the service', 'join refused without contact',
    'refresh refused without contact', 'validate refused without contact',
    'authenticate generated a clientToken',
    'authenticate with invalidate_previous',
    'success stored new credentials', 'error with cause',
    'error with fields, no cause', 'error malformed', 'validate on 204',
    'validate on non-204')


def run_history(ctx, env, table, start, events, key):
    """Run `events` on ONE live token from `start`; compare each step with
    the BFS table.  -> final state."""
    t = env.build(start)
    cur = start
    ctx.traces += 1
    ctx.count()
    for i, (op, pair) in enumerate(events):
        obs = env.call(t, op, reply_of(pair))
        ctx.transitions += 1
        want = table.get((cur, op, pair))
        if want is None:
            raise ToolError('history left the explored state space at %r'
                            % (cur,))
        got = (summary(obs), obs['after'])
        if got != want:
            report(
                ctx, 'history: live token diverges from per-state behaviour',
                'start %r, events %r: at step %d (%s, reply %r) the live '
                'token gave %r, a fresh token carrying the same fields gave '
                '%r - behaviour depends on something besides the stored '
                'fields' % (start, events[:i + 1], i, op, pair, got, want),
                {'kind': 'history', 'transport': env.transport,
                 'start': list(start[:5]),
                 'events': [[o, [p[0], p[1]]] for o, p in events[:i + 1]]})
            return None
        cur = obs['after']
    return cur


SEQ_STARTS = (
    (None, None, None, None, None),
    INIT,
    (None, 'at0', 'ct0', None, None),
    ('u0', 'at0', 'ct0', 'pid0', None),
)


def w_sequences(ctx, task):
    starts, depth, first_ops = task
    alphabet = [(op, pair) for op in OPS for pair in SEQ_REPLIES]
    collect(ctx)
    with Env('adapter') as env:
        table = {}
        # local table restricted to SEQ_REPLIES, by fixpoint from `starts`
        todo = list(starts)
        seen = dict((s0, (s0, ())) for s0 in starts)
        while todo:
            st = todo.pop()
            for op, pair in alphabet:
                obs = env.call(env.materialise(st, seen[st]), op,
                               reply_of(pair))
                table[(st, op, pair)] = (summary(obs), obs['after'])
                if obs['after'] not in seen:
                    if len(seen) > 2000:
                        raise ToolError('state space does not close')
                    seen[obs['after']] = (seen[st][0],
                                          seen[st][1] + ((op, pair),))
                    todo.append(obs['after'])
        for start in starts:
            for first in first_ops:
                heads = [(first, p) for p in SEQ_REPLIES]
                for seq in itertools.product(heads, *([alphabet] *
                                                      (depth - 1))):
                    run_history(ctx, env, table, start, seq, None)
                    ctx.note_distinct(1)
                    ctx.cls('live sequence of length %d' % depth)
    hand_over(ctx)


def w_http(ctx, task):
    collect(ctx)
    with Env('http') as env:
        for st, hst, op, pair, want in task:
            obs = check_transition(ctx, env, st, op, pair, hst)
            ctx.cls('transition over real HTTP')
            got = http_norm(summary(obs))
            if got != want:
                ctx.extra['adapter_vs_http_divergences'] = \
                    ctx.extra.get('adapter_vs_http_divergences', 0) + 1
                ctx.extra.setdefault('divergence_samples', [])
                if len(ctx.extra['divergence_samples']) < 3:
                    ctx.extra['divergence_samples'].append(
                        repr((st, op, pair, got, want))[:600])
    hand_over(ctx)


def http_norm(summ):
    reqs, s, after = summ
    return (tuple((m, e, b, (c or '').split(';')[0]) for m, e, b, c in reqs),
            s, after)


# -- two threads using tokens at the same time -------------------------------
# LoginReactor calls auth_token.join on the networking thread of its
# Connection: two Connections given the same token (or two user threads) make
# overlapping calls on ONE token object.  "Each operation posts the documented
# payload" is per call: the body posted by a call must be built from that
# call's own argument whatever another thread does in between.
RACE_MODULES = ('minecraft.authentication',)
STATE_B = ('u1', 'at1', 'ct1', 'pid1', 'pn1')
#              tokens     operations               reply           bound
RACE_CASES = [
    ('shared',   ('join', 'join-b'),      (204, 'empty'),      2),
    ('shared',   ('join', 'join-b'),      (403, 'error-full'), 1),
    ('separate', ('join', 'join-b'),      (204, 'empty'),      1),
    ('shared',   ('join', 'validate'),    (204, 'empty'),      1),
    ('shared',   ('join', 'invalidate'),  (204, 'empty'),      1),
]
RACE_CASES_THOROUGH = [
    ('shared',   ('join', 'join-b'),      (204, 'empty'),      3),
    ('shared',   ('join', 'join-b'),      (403, 'error-full'), 2),
    ('separate', ('join', 'join-b'),      (204, 'empty'),      2),
    ('shared',   ('join', 'validate'),    (204, 'empty'),      2),
    ('shared',   ('join', 'invalidate'),  (204, 'empty'),      2),
    ('shared',   ('join', 'join'),        (204, 'empty'),      2),
    ('shared',   ('join', 'join-b'),
     (500, 'errobj errorMessage=brace-index'),                 2),
    ('separate', ('join', 'join-b'),      (403, 'error-full'), 2),
    ('shared',   ('join', 'sign_out'),    (204, 'empty'),      2),
    ('shared',   ('validate', 'invalidate'), (204, 'empty'),   2),
    ('shared',   ('validate', 'validate'), (403, 'error-full'), 2),
    ('shared',   ('invalidate', 'join-b'), (404, 'json-null'), 2),
]
RACE_OPS = ('join', 'join-b', 'validate', 'invalidate', 'sign_out')


def race_body(W, params):
    use_repo()
    tokens, ops = params['tokens'], list(params['ops'])
    pair = tuple(params['reply'])
    reply = reply_of(pair)
    if len(ops) != 2 or any(o not in RACE_OPS for o in ops):
        raise ToolError('race of %r: only operations that store nothing '
                        'have a schedule-independent expectation' % (ops,))
    states = [INIT, INIT if tokens == 'shared' else STATE_B]
    viol = []
    with Env('adapter') as env:
        # (requests, outcome, the five stored fields): attributes a token
        # keeps besides them are its own business and may depend on order
        # bodies compared as JSON values (key order is not part of it)
        def five(summ):
            reqs = []
            for m, e, b, c in summ[0]:
                try:
                    b = ('json', json.dumps(json.loads(b.decode('utf-8')),
                                            sort_keys=True))
                except (ValueError, UnicodeDecodeError):
                    pass
                reqs.append((m, e, b, c))
            return (tuple(reqs), summ[1], summ[2][:5])
        alone = [five(summary(env.call(env.build(states[i]), ops[i], reply)))
                 for i in (0, 1)]
        if tokens == 'shared':
            t = env.build(INIT)
            toks = [t, t]
        else:
            toks = [env.build(states[0]), env.build(states[1])]
        env.reply = reply
        del env.log[:]
        who = {}

        def agent(i):
            def f():
                who[threading.get_ident()] = i
                return env.invoke(toks[i], ops[i])
            return f
        got = interleave.race(W, [agent(0), agent(1)])
        log = [dict(r) for r in env.log]
        for r in log:
            if r['thread'] not in who:
                raise ToolError('request from an unknown thread: %r' % (r,))
        label = '%s token, %s || %s, reply %d %s' % (
            'one shared' if tokens == 'shared' else 'two separate',
            ops[0], ops[1], pair[0], pair[1])
        outs = []
        for i in (0, 1):
            if got[i][0] != 'ok':
                raise ToolError('agent %d: %s' % (i, got[i][1]))
            obs = {'requests': [r for r in log if who[r['thread']] == i],
                   'out': got[i][1], 'after': env.read(toks[i])}
            other = ops[1 - i]
            for kind, text in judge(env, states[i], ops[i], reply, obs):
                viol.append((
                    '%s: %s' % (ops[i], kind),
                    '[%s] call %d (%s) while another thread runs %s on %s: %s'
                    % (label, i + 1, ops[i], other,
                       'the same token object' if tokens == 'shared'
                       else 'another token object', text)))
            summ = five(summary(obs))
            if summ != alone[i] and not viol:
                viol.append((
                    '%s: differs from the same call made alone' % ops[i],
                    '[%s] call %d (%s) observed (requests, outcome, fields '
                    'afterwards) = %r; the same call on a token with the '
                    'same fields and no other thread: %r'
                    % (label, i + 1, ops[i], summ, alone[i])))
            outs.append((len(obs['requests']), summ[1][:40]))
    return {'outcome': outs, 'violations': viol}


def race_factory(params):
    def scenario(prefix, expect, visited=None, budget=0):
        return interleave.run(lambda W: race_body(W, params), prefix, expect,
                              budget, modules=RACE_MODULES)
    return scenario


def run_races(ctx, ex):
    cases = list(RACE_CASES)
    if ctx.thorough:
        cases += RACE_CASES_THOROUGH
    execs = 0
    listed = []
    for tokens, ops, pair, bound in cases:
        params = {'tokens': tokens, 'ops': list(ops), 'reply': list(pair)}
        res = ex.explore(ctx, race_factory, params, bound,
                         label='concurrent %s %s ' % (tokens, '||'.join(ops)))
        execs += res.execs
        ctx.note_distinct(res.execs)
        ctx.cls(C_RACE_SHARED if tokens == 'shared' else C_RACE_SEPARATE)
        if tokens == 'shared' and set(ops) == {'join', 'join-b'}:
            ctx.cls(C_RACE_JOINS)
        listed.append({'tokens': tokens, 'ops': list(ops),
                       'reply': list(pair), 'preemption_bound': bound,
                       'schedules': res.execs})
        if res.violations:
            break
    ctx.extra['concurrent'] = {
        'cases': listed, 'schedules_executed': execs,
        'points': 'every source line of ' + ', '.join(RACE_MODULES)}


C_RACE_SHARED = 'two threads operating on one shared token'
C_RACE_SEPARATE = 'two threads operating on two tokens'
C_RACE_JOINS = 'two overlapping joins with different server ids on one token'


def run(ctx):
    use_repo()
    ex = explore.Explorer(memo=False)   # forks its workers before all else
    try:
        _run(ctx)
        # (schedules are explored only on a tree whose sequential behaviour
        # is in order: the oracle of a schedule is the sequential one)
        if not ctx.violations:
            run_races(ctx, ex)
            missing = [c for c in (C_RACE_SHARED, C_RACE_SEPARATE,
                                   C_RACE_JOINS) if not ctx.classes.get(c)]
            if missing and not ctx.violations:
                raise ToolError('vacuous run, classes never hit: %r'
                                % (missing,))
    finally:
        ex.close()


def _run(ctx):
    import minecraft.authentication as A
    originals = (A.requests, A.uuid, A.AUTH_SERVER, A.SESSION_SERVER)
    replies = replies_for(ctx)
    table, hist = bfs(ctx, replies)
    # shortest history of every state, on one live token
    with Env('adapter') as env:
        if not isinstance(A.requests, RequestsShim):
            raise ToolError('rebinding lost')
        for st in sorted(hist, key=repr):
            start, events = hist[st]
            if not events:
                continue
            end = run_history(ctx, env, table, start, events, None)
            ctx.cls('state reached again by its history')
            if end is not None and end != st:
                raise ToolError('history of %r ends in %r' % (st, end))
    ctx.extra['states_found'] = len(hist)
    ctx.extra['replies'] = len(replies)
    ctx.extra['adapter_transitions'] = len(table)
    deepest = max(hist.values(), key=lambda h: (len(h[1]), repr(h)))
    ctx.sample({'deepest_state_history': {
        'start': deepest[0], 'events': [[o, list(p)] for o, p in deepest[1]]}})
    ctx.sample({'reply_alphabet': sorted('%d %s' % p for p in replies)[:40]})

    # operation sequences on one live object
    if ctx.thorough:
        tasks = [([s], 2, [op]) for s in initial_states(ctx) for op in OPS]
        tasks += [([s], 3, [op]) for s in SEQ_STARTS for op in OPS]
    else:
        tasks = [([s], 2, [op]) for s in SEQ_STARTS for op in OPS]
    ctx.pmap(w_sequences, tasks)
    flush(ctx)

    # the same transition set over real HTTP
    if ctx.thorough:
        items = [(st, hist[st] if len(st) > 5 else None, op, pair,
                  http_norm(v[0]))
                 for (st, op, pair), v in sorted(table.items(), key=repr)]
        n = max(1, len(items) // 64 + 1)
        ctx.extra['adapter_vs_http_divergences'] = 0
        ctx.pmap(w_http, [items[i:i + n] for i in range(0, len(items), n)])
        flush(ctx)
        div = ctx.extra['adapter_vs_http_divergences']
        samples = sorted(ctx.extra.pop('divergence_samples', []))[:3]
        if div:
            ctx.extra['divergence_samples'] = samples
        if div and not ctx.violations:
            raise ToolError('in-process adapter and real HTTP disagree on %d '
                            'transitions: %r' % (div, samples))
    now = (A.requests, A.uuid, A.AUTH_SERVER, A.SESSION_SERVER)
    if any(a is not b for a, b in zip(originals, now)):
        raise ToolError('module globals of minecraft.authentication not '
                        'restored: %r' % (now,))
    missing = [c for c in REQUIRED_CLASSES if not ctx.classes.get(c)]
    if missing and not ctx.violations:
        raise ToolError('vacuous run, classes never hit: %r' % (missing,))
    ctx.extra['vacuity_classes_missing'] = missing


def replay(ctx, case):
    use_repo()
    if 'choices' in case:
        x = race_factory(case['params'])(list(case['choices']), None, None,
                                         'replay')
        res = x.result or {}
        viol = list(res.get('violations', ()))
        if x.failure is not None:
            viol.append((x.failure[0], '%s: %s' % x.failure))
        p = case['params']
        label = 'concurrent %s %s ' % (p['tokens'], '||'.join(p['ops']))
        for key, what in viol:
            ctx.violation(label + key, what, case)
        ctx.count()
        return
    kind = case.get('kind')
    if kind == 'authenticated':
        with Env('adapter') as env:
            ctx.count()
            check_authenticated(ctx, env, tuple(case['state']))
        return
    with Env(case.get('transport', 'adapter')) as env:
        if kind == 'transition':
            st, hst = tuple(case['state']), None
            if 'events' in case:
                hst = (tuple(case['start']),
                       tuple((o, tuple(p)) for o, p in case['events']))
                t = env.build(hst[0])
                for o, p in hst[1]:
                    env.call(t, o, reply_of(p))
                st = env.read(t)
            check_transition(ctx, env, st, case['op'],
                             tuple(case['reply']), hst)
            return
        if kind == 'history':
            start = tuple(case['start'])
            events = tuple((o, tuple(p)) for o, p in case['events'])
            t = env.build(start)
            cur = start
            ctx.count()
            ctx.traces += 1
            for i, (op, pair) in enumerate(events):
                fresh = env.call(env.materialise(cur, (start, events[:i])),
                                 op, reply_of(pair))
                live = env.call(t, op, reply_of(pair))
                a = (summary(fresh), fresh['after'])
                b = (summary(live), live['after'])
                if a != b:
                    ctx.violation(
                        'history: live token diverges from per-state '
                        'behaviour',
                        'start %r, events %r: step %d live %r vs fresh %r'
                        % (start, events[:i + 1], i, b, a), case)
                    return
                cur = live['after']
            return
    raise ToolError('unknown case kind %r' % (kind,))
