"""C14 - networking-thread exceptions are contained and routed like try/except.

Fault enumeration: every fault origin x every handler chain up to a length
bound x every final-handler mode, each executed on the real Connection over
the virtual network (canonical schedule) and compared with a reference
interpreter of the documented try/except chain.
"""
import itertools
import json
import struct

from vf import harness, explore, protoids
from vf.refproto import codec
from vf.refserver import RefServer, status_json
from vf.runner import ToolError

LEVEL = 'fault_enumeration'
RULE = ('Fault origins {early listener, ordinary listener, built-in reaction '
        '(login disconnect), built-in reaction (malformed status JSON), '
        'decoder (play frame ending inside a field), exit callback, ordinary '
        'listener for the server\'s disconnect packet (raises after the '
        'built-in reaction has run: two replies were queued, the server is '
        'gone and the flush inside disconnect() met EPIPE, which '
        'disconnect() absorbs; connected is already False), built-in reaction in the '
        'status phase of a multi-version connect (empty status object)} x '
        'handler '
        'chains of length 0-2 (quick) / 0-3 (thorough), each handler = (type '
        'filter in {the original type, replacement types only, an unrelated '
        'type, none = catch all}, registered early or not, action in '
        '{returns, raises a replacement, starts a new connection}) x final '
        'handler in {None, False, returning function, raising function}.  '
        'Complete product.  Non-trivial = at least one handler registered or '
        'a final handler function; distinct = distinct (origin, chain, final).')
ASSUMPTIONS = ['the reference interpreter below encodes the documented '
               'semantics of register_exception_handler / handle_exception',
               'canonical schedule (the fault is raised inside the '
               'networking thread; no user thread interferes)']

V = 757
ORIGINS = ('early_listener', 'listener', 'reaction_login', 'reaction_status',
           'decoder', 'exit_callback', 'listener_on_disconnect',
           'reaction_negotiation')
# origins that exist with a write error pending (an exit callback only runs
# when the loop has ended without one), and those among them whose fault
# occurs before the server has read anything
PENDING_ORIGINS = tuple(o for o in ORIGINS if o != 'exit_callback')
EARLY_ORIGINS = ('reaction_login', 'reaction_status', 'reaction_negotiation')
PENDING_ENVS = ('raise', 'ok_once')
FILTERS = ('orig', 'repl', 'none', 'all')
ACTIONS = ('return', 'raise', 'reconnect')
FINALS = ('None', 'False', 'returns', 'raises')


class Orig(Exception):
    pass


class Repl(Exception):
    pass


class Unrelated(Exception):
    pass


REPLS = [type('Repl%d' % i, (Repl,), {}) for i in range(4)]


class FinalRepl(Repl):
    pass


def orig_type(origin):
    from minecraft.exceptions import LoginDisconnect
    return {'early_listener': Orig, 'listener': Orig, 'exit_callback': Orig,
            'reaction_login': LoginDisconnect,
            'reaction_status': json.JSONDecodeError,
            'decoder': struct.error,
            'listener_on_disconnect': Orig,
            'reaction_negotiation': OSError}[origin]


def order(chain):
    """Handling order after registration with/without early=True."""
    lst = []
    for i, (filt, early, action) in enumerate(chain):
        if early:
            lst.insert(0, i)
        else:
            lst.append(i)
    return lst


def reference(origin, chain, final):
    """-> expected (calls, recorded type name, re-raised?, reconnected?)."""
    ot = orig_type(origin)
    cur = ot
    caught = False
    calls = []
    reconnected = False
    for i in order(chain):
        filt, early, action = chain[i]
        if filt == 'orig':
            match = issubclass(cur, ot)
        elif filt == 'repl':
            match = issubclass(cur, Repl)
        elif filt == 'none':
            match = False
        else:
            match = True
        if not match:
            continue
        calls.append((i, cur.__name__))
        if action == 'raise':
            cur = REPLS[i]
            continue
        if action == 'reconnect':
            reconnected = True
        caught = True
        break
    if final in ('returns', 'raises'):
        calls.append(('final', cur.__name__))
        if final == 'raises':
            cur = FinalRepl
    reraised = final == 'None' and not caught
    return calls, cur.__name__, reraised, reconnected


class ClosingServer(RefServer):
    """A server that, once armed, answers the next bytes it receives by
    sending what it was armed with and closing - the peer goes away while
    the client is still in its write pass, with something left to read."""
    armed = None

    def on_sends(self, conn, entries):
        if self.armed is not None and not self.closed:
            fire, self.armed = self.armed, None
            fire(self)
            self.close()
        RefServer.on_sends(self, conn, entries)


def body(W, origin, chain, final, pending=None):
    """pending: None, or the environment's answer to writes after the peer
    has closed ('raise' / 'ok_once'): the fault then occurs in a lap whose
    write pass has failed (the write error is waiting to be raised after
    the read pass)."""
    S = W.S
    from minecraft.networking.packets import clientbound, serverbound
    ot = orig_type(origin)
    calls = []
    exits = []
    state = {'reconnected': False}

    def trigger():
        """What the server sends to provoke the fault (pending variant)."""
        if origin in ('early_listener', 'listener'):
            return lambda s: s.play(('keepalive', 5))
        if origin == 'decoder':
            return lambda s: s.play(('raw', 0x21, b'\x01'))
        if origin == 'listener_on_disconnect':
            return lambda s: s.play(('disconnect', '{"text":"bye"}'))

        def early(s):       # before the handshake has been read
            s.version = V
            if origin == 'reaction_login':
                s.send('login.disconnect', codec.string('{"text":"no"}'))
            elif origin == 'reaction_status':
                s.send('status.response',
                       codec.string('this is {not json'), pid=0)
            elif origin == 'reaction_negotiation':
                s.send('status.response', codec.string('{}'), pid=0)
            else:
                raise ToolError('no pending variant of %r' % origin)
        return early

    def per_conn(i):
        if i > 0:
            return {'login': [('success',)], 'play_script': []}
        if pending is not None:
            return {'login': [('success',)], 'play_script': []}
        if origin == 'reaction_login':
            return {'login': [('disconnect', '{"text":"no"}')]}
        if origin == 'reaction_status':
            return {'status': {'json': 'this is {not json'}}
        if origin == 'reaction_negotiation':
            # status phase of a multi-version connect(): an empty status
            # object is an error of the built-in reaction (IOError), which
            # must be routed like any other (only EOFError has a fallback)
            return {'status': {'json': '{}'}}
        if origin == 'decoder':
            return {'login': [('success',)],
                    'play_script': [('raw', 0x21, b'\x01')]}
        if origin == 'exit_callback':
            return {'login': [('success',)],
                    'play_script': [('disconnect', '{"text":"bye"}')]}
        if origin == 'listener_on_disconnect':
            # two replies are queued when the disconnect packet is reacted
            # to; the server is gone by then and the environment answers the
            # flush inside disconnect() with EPIPE (which disconnect() must
            # absorb); then an ordinary listener for the disconnect packet
            # raises - with 'connected' already False
            return {'login': [('success',)],
                    'play_script': [('keepalive', 1), ('keepalive', 2),
                                    ('disconnect', '{"text":"bye"}')]}
        return {'login': [('success',)], 'play_script': [('keepalive', 5)]}
    if pending is None:
        W.serve(status={'json': status_json(protocol=V, name='1.18.1')},
                per_conn=per_conn)
    else:
        def endpoint(vconn):
            i = len(W.servers)
            srv = ClosingServer(vconn, protoids.ids, W.rank, status={
                'json': status_json(protocol=V, name='1.18.1')},
                **per_conn(i))
            if i == 0 and origin in EARLY_ORIGINS:
                srv.armed = trigger()
            W.servers.append(srv)
            return srv
        W.net.listen('srv', 25565, endpoint)

    def make_final():
        if final == 'None':
            return None
        if final == 'False':
            return False

        def fn(exc, info):
            calls.append(('final', type(exc).__name__))
            S.event('handler', 'final')
            if info[1] is not exc:
                calls.append(('final-info-mismatch',))
            if final == 'raises':
                raise FinalRepl('from final')
        return fn

    def on_exit():
        exits.append(1)
        if origin == 'exit_callback' and len(exits) == 1:
            raise Orig('from exit callback')
    allowed = {V, 340} if origin == 'reaction_negotiation' else {V}
    conn = W.connection(allowed_versions=allowed,
                        handle_exception=make_final(), handle_exit=on_exit)

    def make_handler(i, action):
        def fn(exc, info):
            calls.append((i, type(exc).__name__))
            S.event('handler', i)
            if info[1] is not exc:
                calls.append(('info-mismatch', i))
            if action == 'raise':
                raise REPLS[i]('from handler %d' % i)
            if action == 'reconnect' and not state['reconnected']:
                state['reconnected'] = True
                conn.connect()
        return fn
    for i, (filt, early, action) in enumerate(chain):
        types = {'orig': (ot,), 'repl': (Repl,), 'none': (Unrelated,),
                 'all': ()}[filt]
        conn.register_exception_handler(make_handler(i, action), *types,
                                        early=early)

    def raiser(p):
        if p.keep_alive_id == 5:
            raise Orig('from listener')
    if origin == 'early_listener':
        conn.register_packet_listener(raiser, clientbound.play.KeepAlivePacket,
                                      early=True)
    elif origin == 'listener':
        conn.register_packet_listener(raiser, clientbound.play.KeepAlivePacket)
    elif origin == 'listener_on_disconnect':
        def on_disc(p):
            raise Orig('from a listener for the disconnect packet')
        conn.register_packet_listener(on_disc,
                                      clientbound.play.DisconnectPacket)
    if origin == 'reaction_status':
        conn.status(handle_status=lambda s: None, handle_ping=False)
    else:
        conn.connect()
    W.settle()
    if pending is not None and origin not in EARLY_ORIGINS:
        # in play, idle: two packets are queued by the user; the server
        # answers the first bytes of the first one with the packet that
        # provokes the fault and closes; the rest of the write pass fails
        # ('raise': at once, 'ok_once': one more write is accepted)
        # (a tree on which this plain login fails provokes no fault here
        # and is reported for that)
        if W.servers[0].state == 'play' and not calls:
            W.servers[0].armed = trigger()
            for text in ('queued 1', 'queued 2'):
                conn.write_packet(serverbound.play.ChatPacket(message=text))
            W.settle()
    first = S.agents[1] if len(S.agents) > 1 else None
    srv0 = W.servers[0]
    fails = [i for i, ev in enumerate(S.log) if ev[0] == 'send-fail'
             and ev[1] == 0 and first is not None and ev[2] == first.id]
    out = {
        # (pending variant) the first thread's write met EPIPE on the first
        # connection before any handler ran
        'write_failed': bool(fails) and not [
            ev for ev in S.log[:fails[0]] if ev[0] == 'handler'],
        'calls': calls,
        'recorded': type(conn.exception).__name__
        if conn.exception is not None else None,
        'exc_info_ok': conn.exc_info is not None
        and conn.exc_info[1] is conn.exception,
        'first_thread_done': first is not None and first.state == 'done',
        'reraised': type(first.exc).__name__
        if first is not None and first.exc is not None else None,
        'other_thread_exc': [type(a.exc).__name__ for a in S.agents[2:]
                             if a.exc is not None],
        'closed_at_server': srv0.client_gone,
        'conns': len(W.net.conns),
        'live': len(S.live()),
        'reconnected': state['reconnected'],
        'exits': len(exits),
        'slot': conn.networking_thread is not None,
    }
    # the new connection (if a handler started one) is live and undisturbed
    if state['reconnected'] and len(W.servers) > 1:
        srv1 = W.servers[-1]    # (after a negotiated reconnect: the 3rd)
        if srv1.state != 'play':
            # the new connection never got through its login
            out['new_conn_alive'] = False
            out['new_conn_state'] = '%s, frames %r, errors %r' % (
                srv1.state, [(f[0], f[1]) for f in srv1.frames[:4]],
                srv1.errors[:2])
        else:
            srv1.play(('keepalive', 777))
            W.settle()
            out['new_conn_alive'] = ('keepalive', 777) in srv1.play_rx and \
                not srv1.client_gone and type(conn.reactor).__name__ == \
                'PlayingReactor'
    elif not state['reconnected']:
        # afterwards the same object can connect again
        try:
            conn.connect()
            W.settle()
            srvn = W.servers[-1]
            srvn.play(('keepalive', 778))
            W.settle()
            out['reusable'] = ('keepalive', 778) in srvn.play_rx
            if not chain and final == 'False' and out['reusable']:
                # a second, different failure on the same object: the
                # *last* exception must be the recorded one
                srvn.play(('raw', 0x21, b'\x01'))
                W.settle()
                out['second_recorded'] = type(conn.exception).__name__
        except Exception as e:
            out['reusable'] = 'connect() raised %s: %s' % (
                type(e).__name__, e)
    return out


def judge(origin, chain, final, x):
    viol = []
    if x.failure is not None:
        return [(x.failure[0], '%s: %s' % x.failure)]
    r = x.result
    calls, recorded, reraised, reconnected = reference(origin, chain, final)
    got_calls = [tuple(c) for c in r['calls']]
    if got_calls != calls:
        viol.append(('handler-calls', 'handlers were called as %r, the '
                     'try/except reading of the chain gives %r'
                     % (got_calls, calls)))
        return viol
    if r['recorded'] != recorded:
        viol.append(('recorded-exception', 'connection.exception is %r, '
                     'expected the last exception %r'
                     % (r['recorded'], recorded)))
    elif not r['exc_info_ok']:
        viol.append(('recorded-exc-info', 'connection.exc_info does not '
                     'belong to connection.exception'))
    if bool(r['reraised']) != reraised or (
            reraised and r['reraised'] != recorded):
        viol.append(('reraise', 're-raised from the thread: %r, expected %s'
                     % (r['reraised'], recorded if reraised else 'nothing')))
    if r['other_thread_exc']:
        viol.append(('second-thread-raised', 'a later networking thread '
                     'raised %r' % (r['other_thread_exc'],)))
    if not r['first_thread_done']:
        viol.append(('thread-survives', 'the networking thread in which the '
                     'exception occurred is still alive'))
    if not r['closed_at_server'] and not reconnected:
        # (when a handler has started a new connection the statement exempts
        # the old one: the library then leaves the transport alone)
        viol.append(('not-closed', 'the failed connection was not closed at '
                     'the server'))
    if r['reconnected'] != reconnected:
        viol.append(('reconnect', 'reconnecting handler ran: %r, expected %r'
                     % (r['reconnected'], reconnected)))
    if reconnected:
        if r.get('new_conn_alive') is not True:
            viol.append(('new-connection-disturbed', 'a handler started a '
                         'new connection, but afterwards it is not a live '
                         'play connection (conns=%d live threads=%d%s)'
                         % (r['conns'], r['live'],
                            '; server side of the new connection: '
                            + r['new_conn_state']
                            if 'new_conn_state' in r else '')))
    else:
        if r['live'] != 0 and 'reusable' not in r:
            viol.append(('thread-survives', '%d threads alive' % r['live']))
        if 'second_recorded' in r and r['second_recorded'] != 'error':
            viol.append(('recorded-exception', 'after a second failure '
                         '(struct.error in the decoder) connection.exception '
                         'is still %r' % (r['second_recorded'],)))
        if r.get('reusable') is not True:
            viol.append(('not-reusable', 'after the failure connect() on the '
                         'same object: %r' % (r.get('reusable'),)))
    return viol


def chains(maxlen):
    opts = list(itertools.product(FILTERS, (False, True), ACTIONS))
    for n in range(maxlen + 1):
        for c in itertools.product(opts, repeat=n):
            yield c


def netkw(origin):
    if origin == 'listener_on_disconnect':
        return {'send_after_close': 'raise'}
    return {}


def w_batch(ctx, task):
    origin, final, batch = task
    for chain in batch:
        x = harness.run(lambda W: body(W, origin, chain, final),
                        horizon=50000, **netkw(origin))
        ctx.count()
        if chain or final in ('returns', 'raises'):
            ctx.note_distinct(1)
        viol = judge(origin, chain, final, x)
        exp = reference(origin, chain, final)
        ctx.outcome('recorded=%s reraised=%s reconnected=%s ncalls=%d'
                    % (exp[1], exp[2], exp[3], len(exp[0])))
        ctx.cls('origin %s' % origin)
        for key, what in viol:
            ctx.violation(
                '%s final=%s %s' % (origin, final, key),
                'origin %s, handler chain (filter, early, action) %r, final '
                'handler %s: %s' % (origin, list(chain), final, what),
                {'origin': origin, 'final': final,
                 'chain': [list(h) for h in chain]})


def run(ctx):
    maxlen = 3 if ctx.thorough else 2
    allc = list(chains(maxlen))
    tasks = []
    for origin in ORIGINS:
        for final in FINALS:
            for i in range(0, len(allc), 40):
                tasks.append((origin, final, allc[i:i + 40]))
    if ctx.seed:
        import random
        random.Random(ctx.seed).shuffle(tasks)
    ctx.pmap(w_batch, tasks)
    ctx.extra['chains'] = len(allc)
    ctx.sample({'origin': 'listener', 'final': 'None',
                'chain': [['repl', False, 'return'], ['orig', True, 'raise']],
                'expected': reference('listener', (('repl', False, 'return'),
                                                   ('orig', True, 'raise')),
                                      'None')})


def replay(ctx, case):
    chain = tuple(tuple(h) for h in case['chain'])
    x = harness.run(lambda W: body(W, case['origin'], chain, case['final']),
                    horizon=50000, **netkw(case['origin']))
    ctx.count()
    for key, what in judge(case['origin'], chain, case['final'], x):
        ctx.violation('%s final=%s %s' % (case['origin'], case['final'], key),
                      what, case)
