"""C14 - networking-thread exceptions are contained and routed like try/except.

Fault enumeration: every fault origin x every handler chain up to a length
bound x every final-handler mode, each executed on the real Connection over
the virtual network (canonical schedule) and compared with a reference
interpreter of the documented try/except chain; the same with a write error
pending when the fault occurs; with the new connection of a handler started
through status(); with the final handler and the exit callback configured
through the public attributes, before the first or before a second use of the
object; and a small family of thread schedules in which a handler hands the
failure over to a user thread and waits for it.
"""
import itertools
import json
import struct

from vf import harness, explore, protoids, pysched
from vf.refproto import codec
from vf.refserver import RefServer, status_json
from vf.runner import ToolError

LEVEL = 'fault_enumeration'
RULE = ('Fault origins {early listener, ordinary listener, built-in reaction '
        '(login disconnect), built-in reaction (malformed status JSON), '
        'decoder (play frame ending inside a field), exit callback, ordinary '
        'listener for the server\'s disconnect packet (raises after the '
        'built-in reaction has run: two replies were queued, the server is '
        'gone and the flush inside disconnect() met EPIPE, which '
        'disconnect() absorbs; connected is already False), built-in reaction in the '
        'status phase of a multi-version connect (empty status object)} x '
        'handler '
        'chains of length 0-2 (quick) / 0-3 (thorough), each handler = (type '
        'filter in {the original type, replacement types only, an unrelated '
        'type, none = catch all}, registered early or not, action in '
        '{starts no connection, starts a new connection} x {returns, raises '
        'a replacement} - a handler that starts a new connection and then '
        'raises has caught nothing: the replacement is offered to the later '
        'handlers, recorded, and re-raised from the dying thread iff nothing '
        'caught it and there is no final handler, while the new connection '
        'stays up) x final '
        'handler in {None, False, returning function, raising function}.  '
        'Complete product.  What the dying thread raises is read from the '
        'thread itself in every case, with or without a new connection.  '
        'The way a handler starts the new connection is a further dimension '
        'of every chain that contains such a handler (only the first one '
        'that runs starts one): connect() (chains as above; afterwards the '
        'new connection must be a live play connection that answers a '
        'keep-alive) or status() with both callbacks (chains one shorter; '
        'the status conversation must complete - one request, one ping at '
        'the server, each callback called once with what the server sent - '
        'and afterwards the object must connect again).  Route dimension: '
        'the final handler is configured by {constructor keyword, '
        'assignment to the public attribute handle_exception after '
        'construction (the constructor was given the next mode in the cycle '
        'None -> returning -> ... so that every mode replaces an observably '
        'different one), assignment to the attribute after a first '
        'connection of the same object has ended (second use of the object; '
        'first connection = a play connection, or a status query for the two '
        'status-phase origins, ended {by the server in the ordinary way, by '
        'a failure of its own that the handler of the time dealt with}; '
        'handlers and listeners are registered after it)}, likewise the exit '
        'callback handle_exit (same route as the final handler; for the '
        'origin exit callback the two routes vary independently, 3 x 3): '
        'every route other than keyword/keyword x every origin x chains one '
        'shorter (new connection through status(): two shorter) x the four '
        'final modes, same oracle (the replaced values '
        'must never be called).  Second dimension, for every origin except the '
        'exit callback: a write error is pending when the fault occurs (the '
        'client has two packets queued; the server answers the first bytes '
        'written with the packet that provokes the fault and closes, so the '
        'rest of the same write pass fails and the provoking packet is '
        'readable in the same lap; environment answer to writes after the '
        'close in {EPIPE at once, one more write accepted then EPIPE}) x '
        'chains of length 0-1 (quick) / 0-2 (thorough; new connection '
        'through status(): 0-1) x the four final '
        'handlers: the exception dispatched must still be the one that '
        'escaped the read pass.  Third part, schedules: the networking '
        'thread fails in play (ordinary listener) and the handler {a '
        'registered handler, the final handler} hands the failure over to a '
        'user thread and waits (through the scheduler) until that thread\'s '
        'call {disconnect(), disconnect(immediate=True), '
        'write_packet(force=True), connect()} has returned, then {returns, '
        'raises a replacement}: all schedules of '
        'the two threads with <= 1 (quick) / 2 (thorough) preemptions, '
        'scheduling points at every lock, queue, socket and thread '
        'operation and every shared-attribute bytecode of connection.py; '
        'oracle: no deadlock, the handler is called once with the original '
        'exception, the last exception is recorded, the failed thread ends '
        'and re-raises exactly when a registered handler raised (no final '
        'handler is configured then), '
        'and either the connection started by the '
        'user\'s accepted connect() is a live play connection or the failed '
        'one is closed at the server and the object connects again.  '
        'Non-trivial = at least one handler registered or '
        'a final handler function; distinct = distinct (origin, pending '
        'write error, way of reconnecting, routes, chain, final) plus '
        'distinct schedule outcomes.')
ASSUMPTIONS = ['the reference interpreter below encodes the documented '
               'semantics of register_exception_handler / handle_exception',
               'canonical schedule for the fault enumeration (the fault is '
               'raised inside the networking thread; no user thread '
               'interferes); for the hand-over schedules: single bytecodes '
               'are atomic (CPython GIL), nothing claimed beyond the '
               'preemption bound',
               'when a write error and an exception from the read pass '
               'exist in the same lap, the statement ("any exception '
               'escaping a listener, a built-in reaction or packet decoding '
               '... is dispatched") makes the latter the one to dispatch',
               'handle_exception and handle_exit are public attributes: '
               'assigning one between connections (no networking thread '
               'running) is equivalent to passing the value to the '
               'constructor (the pinned test suite assigns handle_exit this '
               'way)',
               'a second-use case is judged only when the first connection '
               'left the object idle; the same conversations are judged as '
               'first uses by the keyword cases, and an unjudged second-use '
               'case on a tree that passes all judged cases is a tool '
               'error']

V = 757
ORIGINS = ('early_listener', 'listener', 'reaction_login', 'reaction_status',
           'decoder', 'exit_callback', 'listener_on_disconnect',
           'reaction_negotiation')
# origins that exist with a write error pending (an exit callback only runs
# when the loop has ended without one), and those among them whose fault
# occurs before the server has read anything
PENDING_ORIGINS = tuple(o for o in ORIGINS if o != 'exit_callback')
EARLY_ORIGINS = ('reaction_login', 'reaction_status', 'reaction_negotiation')
PENDING_ENVS = ('raise', 'ok_once')
FILTERS = ('orig', 'repl', 'none', 'all')
# what a handler does: {starts no connection, starts a new connection} x
# {returns, raises a replacement}
ACTIONS = ('return', 'raise', 'reconnect', 'reconnect_raise')
RECONNECTING = ('reconnect', 'reconnect_raise')
RAISING = ('raise', 'reconnect_raise')
# how a reconnecting handler starts the new connection
VIAS = ('connect', 'status')
FINALS = ('None', 'False', 'returns', 'raises')
# the route by which the final handler / the exit callback is configured:
# constructor keyword; attribute assignment after construction, before the
# first connect; attribute assignment after a first connection of the same
# object has ended (second use)
ROUTES = ('keyword', 'attr', 'second')
# how the first connection ended (routes with 'second')
FIRST_ENDS = ('clean', 'failed')
# the value the attribute held before the assignment (given to the
# constructor): the next final mode in cyclic order, so that every mode is
# replaced once and every replaced value behaves observably differently
PREV = {'None': 'returns', 'False': 'raises', 'returns': 'None',
        'raises': 'False'}
BASE = {'pending': None, 'via': 'connect', 'froute': 'keyword',
        'eroute': 'keyword', 'first_end': None}


def variant(**kw):
    var = dict(BASE)
    var.update(kw)
    return var


def has_reconnect(chain):
    return any(h[2] in RECONNECTING for h in chain)


class Orig(Exception):
    pass


class Repl(Exception):
    pass


class Unrelated(Exception):
    pass


REPLS = [type('Repl%d' % i, (Repl,), {}) for i in range(4)]


class FinalRepl(Repl):
    pass


def orig_type(origin):
    from minecraft.exceptions import LoginDisconnect
    return {'early_listener': Orig, 'listener': Orig, 'exit_callback': Orig,
            'reaction_login': LoginDisconnect,
            'reaction_status': json.JSONDecodeError,
            'decoder': struct.error,
            'listener_on_disconnect': Orig,
            'reaction_negotiation': OSError}[origin]


def order(chain):
    """Handling order after registration with/without early=True."""
    lst = []
    for i, (filt, early, action) in enumerate(chain):
        if early:
            lst.insert(0, i)
        else:
            lst.append(i)
    return lst


def reference(origin, chain, final):
    """-> expected (calls, recorded type name, re-raised?, reconnected?)."""
    ot = orig_type(origin)
    cur = ot
    caught = False
    calls = []
    reconnected = False
    for i in order(chain):
        filt, early, action = chain[i]
        if filt == 'orig':
            match = issubclass(cur, ot)
        elif filt == 'repl':
            match = issubclass(cur, Repl)
        elif filt == 'none':
            match = False
        else:
            match = True
        if not match:
            continue
        calls.append((i, cur.__name__))
        if action in RECONNECTING:
            # (a new connection exists from here on, whatever the handler
            # does next: the statement's "unless a handler has already
            # started a new one")
            reconnected = True
        if action in RAISING:
            # like a raise inside an except clause: the replacement is
            # offered to the later handlers, this handler caught nothing
            cur = REPLS[i]
            continue
        caught = True
        break
    if final in ('returns', 'raises'):
        calls.append(('final', cur.__name__))
        if final == 'raises':
            cur = FinalRepl
    reraised = final == 'None' and not caught
    return calls, cur.__name__, reraised, reconnected


class ClosingServer(RefServer):
    """A server that, once armed, answers the next bytes it receives by
    sending what it was armed with and closing - the peer goes away while
    the client is still in its write pass, with something left to read."""
    armed = None

    def on_sends(self, conn, entries):
        if self.armed is not None and not self.closed:
            fire, self.armed = self.armed, None
            fire(self)
            self.close()
        RefServer.on_sends(self, conn, entries)


def body(W, origin, chain, final, pending=None, via='connect',
         froute='keyword', eroute='keyword', first_end=None):
    """pending: None, or the environment's answer to writes after the peer
    has closed ('raise' / 'ok_once'): the fault then occurs in a lap whose
    write pass has failed (the write error is waiting to be raised after
    the read pass).
    via: how a reconnecting handler starts the new connection.
    froute / eroute: the route by which the final handler / the exit
    callback is configured (ROUTES); first_end: how the first connection
    ended when one of them is 'second'."""
    S = W.S
    from minecraft.networking.packets import clientbound, serverbound
    ot = orig_type(origin)
    calls = []
    exits = []
    state = {'reconnected': False}
    second = 'second' in (froute, eroute)
    if second != (first_end is not None):
        raise ToolError('first_end %r with routes %r %r'
                        % (first_end, froute, eroute))
    # judged: the use of the object whose fault is judged has begun;
    # nb / na: connections / threads that existed before it
    phase = {'judged': not second, 'nb': 0, 'na': 1}
    first_kind = 'status' if origin in ('reaction_status',
                                        'reaction_negotiation') else 'play'
    status_seen, pings_seen = [], []

    def trigger():
        """What the server sends to provoke the fault (pending variant)."""
        if origin in ('early_listener', 'listener'):
            return lambda s: s.play(('keepalive', 5))
        if origin == 'decoder':
            return lambda s: s.play(('raw', 0x21, b'\x01'))
        if origin == 'listener_on_disconnect':
            return lambda s: s.play(('disconnect', '{"text":"bye"}'))

        def early(s):       # before the handshake has been read
            s.version = V
            if origin == 'reaction_login':
                s.send('login.disconnect', codec.string('{"text":"no"}'))
            elif origin == 'reaction_status':
                s.send('status.response',
                       codec.string('this is {not json'), pid=0)
            elif origin == 'reaction_negotiation':
                s.send('status.response', codec.string('{}'), pid=0)
            else:
                raise ToolError('no pending variant of %r' % origin)
        return early

    def per_conn(i):
        if not phase['judged']:
            # the first use of the object: a status query (for the origins
            # whose judged use needs the full set of allowed versions: a
            # completed negotiation narrows it for good) or a play
            # connection, ended by the server in the ordinary way, or by a
            # failure that the handler configured at the time deals with
            if first_kind == 'status':
                return {} if first_end == 'clean' else \
                    {'status': {'json': 'this is {not json'}}
            return {'login': [('success',)], 'play_script': [
                ('disconnect', '{"text":"first use over"}')
                if first_end == 'clean' else ('raw', 0x21, b'\x01')]}
        i -= phase['nb']
        if i > 0:
            return {'login': [('success',)], 'play_script': []}
        if pending is not None:
            return {'login': [('success',)], 'play_script': []}
        if origin == 'reaction_login':
            return {'login': [('disconnect', '{"text":"no"}')]}
        if origin == 'reaction_status':
            return {'status': {'json': 'this is {not json'}}
        if origin == 'reaction_negotiation':
            # status phase of a multi-version connect(): an empty status
            # object is an error of the built-in reaction (IOError), which
            # must be routed like any other (only EOFError has a fallback)
            return {'status': {'json': '{}'}}
        if origin == 'decoder':
            return {'login': [('success',)],
                    'play_script': [('raw', 0x21, b'\x01')]}
        if origin == 'exit_callback':
            return {'login': [('success',)],
                    'play_script': [('disconnect', '{"text":"bye"}')]}
        if origin == 'listener_on_disconnect':
            # two replies are queued when the disconnect packet is reacted
            # to; the server is gone by then and the environment answers the
            # flush inside disconnect() with EPIPE (which disconnect() must
            # absorb); then an ordinary listener for the disconnect packet
            # raises - with 'connected' already False
            return {'login': [('success',)],
                    'play_script': [('keepalive', 1), ('keepalive', 2),
                                    ('disconnect', '{"text":"bye"}')]}
        return {'login': [('success',)], 'play_script': [('keepalive', 5)]}
    if pending is None:
        W.serve(status={'json': status_json(protocol=V, name='1.18.1')},
                per_conn=per_conn)
    else:
        def endpoint(vconn):
            i = len(W.servers)
            kw = {'status': {'json': status_json(protocol=V, name='1.18.1')}}
            kw.update(per_conn(i))
            srv = ClosingServer(vconn, protoids.ids, W.rank, **kw)
            if phase['judged'] and i == phase['nb'] and \
                    origin in EARLY_ORIGINS:
                srv.armed = trigger()
            W.servers.append(srv)
            return srv
        W.net.listen('srv', 25565, endpoint)

    def make_final(mode, current=True):
        """current=False: the value that is replaced through the attribute
        before the judged use; a call of it during the judged use is
        recorded as such."""
        if mode == 'None':
            return None
        if mode == 'False':
            return False

        def fn(exc, info):
            if not phase['judged']:
                if mode == 'raises':
                    raise FinalRepl('from the final handler of the first use')
                return
            tag = 'final' if current else 'replaced-final'
            calls.append((tag, type(exc).__name__))
            S.event('handler', tag)
            if info[1] is not exc:
                calls.append(('final-info-mismatch',))
            if mode == 'raises':
                raise FinalRepl('from final')
        return fn

    def on_exit():
        if not phase['judged']:
            return
        exits.append(1)
        if origin == 'exit_callback' and len(exits) == 1:
            raise Orig('from exit callback')

    def replaced_exit():
        if phase['judged']:
            # (not an exception handler: noted, and judged only through its
            # consequence - the exit callback that should have raised did
            # not run)
            S.event('replaced-exit-callback')
            state['replaced_exit_called'] = True
    allowed = {V, 340} if origin == 'reaction_negotiation' else {V}
    conn = W.connection(
        allowed_versions=allowed,
        handle_exception=make_final(final) if froute == 'keyword'
        else make_final(PREV[final], current=False),
        handle_exit=on_exit if eroute == 'keyword' else replaced_exit)
    if froute == 'attr':
        conn.handle_exception = make_final(final)
    if eroute == 'attr':
        conn.handle_exit = on_exit

    if second:
        # first use: runs to its end, then the attributes are assigned
        if first_kind == 'status':
            conn.status(handle_status=lambda s: None, handle_ping=False)
        else:
            conn.connect()
        W.settle()
        if S.live() or conn.networking_thread is not None or \
                not W.servers or not W.servers[-1].client_gone:
            # the object is not idle again: there is no "second use" to
            # judge on this tree (the same conversation is judged as a first
            # use by the keyword variants); see the vacuity guard in _run()
            return {'first_use_incomplete': '%d threads alive, thread slot '
                    '%r, %d connections' % (len(S.live()),
                                            conn.networking_thread,
                                            len(W.servers))}
        if froute == 'second':
            conn.handle_exception = make_final(final)
        if eroute == 'second':
            conn.handle_exit = on_exit
        phase.update(judged=True, nb=len(W.servers), na=len(S.agents))
    nb, na = phase['nb'], phase['na']

    def make_handler(i, action):
        def fn(exc, info):
            calls.append((i, type(exc).__name__))
            S.event('handler', i)
            if info[1] is not exc:
                calls.append(('info-mismatch', i))
            if action in RECONNECTING and not state['reconnected']:
                state['reconnected'] = True
                if via == 'status':
                    conn.status(
                        handle_status=lambda s: status_seen.append(
                            s.get('version', {}).get('protocol')
                            if isinstance(s, dict) else repr(s)),
                        handle_ping=pings_seen.append)
                else:
                    conn.connect()
            if action in RAISING:
                raise REPLS[i]('from handler %d' % i)
        return fn
    for i, (filt, early, action) in enumerate(chain):
        types = {'orig': (ot,), 'repl': (Repl,), 'none': (Unrelated,),
                 'all': ()}[filt]
        conn.register_exception_handler(make_handler(i, action), *types,
                                        early=early)

    raised = []

    def raiser(p):
        if p.keep_alive_id == 5:
            raised.append(1)
            raise Orig('from listener')
    if origin == 'early_listener':
        conn.register_packet_listener(raiser, clientbound.play.KeepAlivePacket,
                                      early=True)
    elif origin == 'listener':
        conn.register_packet_listener(raiser, clientbound.play.KeepAlivePacket)
    elif origin == 'listener_on_disconnect':
        def on_disc(p):
            raised.append(1)
            raise Orig('from a listener for the disconnect packet')
        conn.register_packet_listener(on_disc,
                                      clientbound.play.DisconnectPacket)
    if origin == 'reaction_status':
        conn.status(handle_status=lambda s: None, handle_ping=False)
    else:
        conn.connect()
    W.settle()
    if pending is not None and origin not in EARLY_ORIGINS:
        # in play, idle: two packets are queued by the user; the server
        # answers the first bytes of the first one with the packet that
        # provokes the fault and closes; the rest of the write pass fails
        # ('raise': at once, 'ok_once': one more write is accepted)
        # (a tree on which this plain login fails provokes no fault here:
        # the case is then not judged, see one(); the variants without a
        # pending write error report such a tree)
        if W.servers[nb].state == 'play' and not calls:
            W.servers[nb].armed = trigger()
            for text in ('queued 1', 'queued 2'):
                conn.write_packet(serverbound.play.ChatPacket(message=text))
            W.settle()
    first = S.agents[na] if len(S.agents) > na else None
    srv0 = W.servers[nb]
    c0 = W.net.conns[nb]
    fails = [i for i, ev in enumerate(S.log) if ev[0] == 'send-fail'
             and ev[1] == c0.id and first is not None and ev[2] == first.id]
    out = {
        # (pending variant) the first thread's write met EPIPE on the first
        # connection before any handler ran
        'write_failed': bool(fails) and not [
            ev for ev in S.log[:fails[0]] if ev[0] == 'handler'],
        # the fault really occurred: the listener raised / the frame that
        # cannot be decoded or reacted to was read to its last byte
        'fault_reached': bool(raised) if 'listener' in origin
        else c0.pushed_total > 0 and c0.consumed >= c0.pushed_total,
        'calls': calls,
        'recorded': type(conn.exception).__name__
        if conn.exception is not None else None,
        'exc_info_ok': conn.exc_info is not None
        and conn.exc_info[1] is conn.exception,
        'first_thread_done': first is not None and first.state == 'done',
        # what the dying thread raised (the re-raise), also when a handler
        # has started a new connection
        'reraised': type(first.exc).__name__
        if first is not None and first.exc is not None else None,
        'other_thread_exc': [type(a.exc).__name__ for a in S.agents[na + 1:]
                             if a.exc is not None],
        'closed_at_server': srv0.client_gone,
        'conns': len(W.net.conns) - nb,
        'live': len(S.live()),
        'reconnected': state['reconnected'],
        'exits': len(exits),
        'replaced_exit_called': bool(state.get('replaced_exit_called')),
        'slot': conn.networking_thread is not None,
    }
    # the new connection (if a handler started one) is live and undisturbed
    started = state['reconnected'] and len(W.servers) > nb + 1
    if started and via == 'status':
        # a status conversation with latency measurement: both callbacks
        # have been called, with what the server sent, and the server saw
        # one well-formed request and one ping; then it is over
        srv1 = W.servers[-1]
        out['new_conn_alive'] = (
            status_seen == [V] and len(pings_seen) == 1
            and srv1.status_requests == 1 and len(srv1.pings) == 1
            and not srv1.errors and len(W.servers) == nb + 2)
        if not out['new_conn_alive']:
            out['new_conn_state'] = (
                'status callback calls %r (expected [%d]), ping callback '
                'calls %d (expected 1); server: state %s, %d requests, %d '
                'pings, errors %r' % (
                    status_seen, V, len(pings_seen), srv1.state,
                    srv1.status_requests, len(srv1.pings), srv1.errors[:2]))
    elif started:
        srv1 = W.servers[-1]    # (after a negotiated reconnect: the 3rd)
        if srv1.state != 'play':
            # the new connection never got through its login
            out['new_conn_alive'] = False
            out['new_conn_state'] = '%s, frames %r, errors %r' % (
                srv1.state, [(f[0], f[1]) for f in srv1.frames[:4]],
                srv1.errors[:2])
        else:
            srv1.play(('keepalive', 777))
            W.settle()
            out['new_conn_alive'] = ('keepalive', 777) in srv1.play_rx and \
                not srv1.client_gone and type(conn.reactor).__name__ == \
                'PlayingReactor'
    if not state['reconnected'] or (started and via == 'status'
                                    and out['new_conn_alive']):
        # afterwards (also: after the status conversation that a handler
        # started has ended) the same object can connect again
        out['live_before_reuse'] = len(S.live())
        try:
            conn.connect()
            W.settle()
            srvn = W.servers[-1]
            srvn.play(('keepalive', 778))
            W.settle()
            out['reusable'] = ('keepalive', 778) in srvn.play_rx
            if not chain and final == 'False' and out['reusable']:
                # a second, different failure on the same object: the
                # *last* exception must be the recorded one
                srvn.play(('raw', 0x21, b'\x01'))
                W.settle()
                out['second_recorded'] = type(conn.exception).__name__
        except Exception as e:
            out['reusable'] = 'connect() raised %s: %s' % (
                type(e).__name__, e)
    return out


def judge(origin, chain, final, x, via='connect'):
    viol = []
    if x.failure is not None:
        return [(x.failure[0], '%s: %s' % x.failure)]
    r = x.result
    if 'first_use_incomplete' in r:
        return []
    calls, recorded, reraised, reconnected = reference(origin, chain, final)
    got_calls = [tuple(c) for c in r['calls']]
    if got_calls != calls:
        viol.append(('handler-calls', 'handlers were called as %r, the '
                     'try/except reading of the chain gives %r%s'
                     % (got_calls, calls,
                        ' (the exit callback that was replaced through the '
                        'attribute was called)'
                        if r['replaced_exit_called'] else '')))
        return viol
    if r['recorded'] != recorded:
        viol.append(('recorded-exception', 'connection.exception is %r, '
                     'expected the last exception %r'
                     % (r['recorded'], recorded)))
    elif not r['exc_info_ok']:
        viol.append(('recorded-exc-info', 'connection.exc_info does not '
                     'belong to connection.exception'))
    if bool(r['reraised']) != reraised or (
            reraised and r['reraised'] != recorded):
        viol.append(('reraise', 're-raised from the thread: %r, expected %s'
                     '%s' % (r['reraised'],
                             recorded if reraised else 'nothing',
                             ' (a handler had started a new connection '
                             'before the chain ended)' if reconnected
                             else '')))
    if r['other_thread_exc']:
        viol.append(('second-thread-raised', 'a later networking thread '
                     'raised %r' % (r['other_thread_exc'],)))
    if not r['first_thread_done']:
        viol.append(('thread-survives', 'the networking thread in which the '
                     'exception occurred is still alive'))
    if not r['closed_at_server'] and not reconnected:
        # (when a handler has started a new connection the statement exempts
        # the old one: the library then leaves the transport alone)
        viol.append(('not-closed', 'the failed connection was not closed at '
                     'the server'))
    if r['reconnected'] != reconnected:
        viol.append(('reconnect', 'reconnecting handler ran: %r, expected %r'
                     % (r['reconnected'], reconnected)))
    if reconnected:
        if r.get('new_conn_alive') is not True:
            viol.append(('new-connection-disturbed', 'a handler started a '
                         'new connection (%s), but afterwards it is not %s '
                         '(conns=%d live threads=%d%s)'
                         % ('connect()' if via == 'connect' else
                            'status() with both callbacks',
                            'a live play connection' if via == 'connect'
                            else 'a completed status conversation',
                            r['conns'], r['live'],
                            '; server side of the new connection: '
                            + r['new_conn_state']
                            if 'new_conn_state' in r else '')))
        elif via == 'status':
            if r['live_before_reuse'] != 0:
                viol.append(('thread-survives', '%d threads alive after the '
                             'status conversation started by a handler has '
                             'ended' % r['live_before_reuse']))
            if r.get('reusable') is not True:
                viol.append(('not-reusable', 'after the failure and the '
                             'status conversation started by a handler, '
                             'connect() on the same object: %r'
                             % (r.get('reusable'),)))
    else:
        if r['live'] != 0 and 'reusable' not in r:
            viol.append(('thread-survives', '%d threads alive' % r['live']))
        if 'second_recorded' in r and r['second_recorded'] != 'error':
            viol.append(('recorded-exception', 'after a second failure '
                         '(struct.error in the decoder) connection.exception '
                         'is still %r' % (r['second_recorded'],)))
        if r.get('reusable') is not True:
            viol.append(('not-reusable', 'after the failure connect() on the '
                         'same object: %r' % (r.get('reusable'),)))
    return viol


def chains(maxlen, minlen=0):
    opts = list(itertools.product(FILTERS, (False, True), ACTIONS))
    for n in range(minlen, maxlen + 1):
        for c in itertools.product(opts, repeat=n):
            yield c


def netkw(origin, pending=None):
    if pending is not None:
        return {'send_after_close': pending}
    if origin == 'listener_on_disconnect':
        return {'send_after_close': 'raise'}
    return {}


ROUTE_TEXT = {'keyword': 'the constructor keyword',
              'attr': 'assignment to the attribute after construction',
              'second': 'assignment to the attribute after a first '
              'connection of the object had ended'}


def one(origin, chain, final, var):
    pending, via = var['pending'], var['via']
    x = harness.run(lambda W: body(W, origin, chain, final, **var),
                    horizon=50000, **netkw(origin, pending))
    viol = judge(origin, chain, final, x, via)
    if pending is not None and x.failure is None and not (
            x.result.get('write_failed') and x.result.get('fault_reached')):
        # the tree under test never got to the fault (e.g. it gives up at
        # the failed write): no exception escaped a listener, reaction or
        # the decoder, the statement says nothing; counted, see the
        # vacuity guard in run()
        viol = []
    if pending is not None:
        viol = [(k, w + '  (A write error was pending when the fault '
                 'occurred: the server had closed while the client was '
                 'writing, environment answer to further writes: %s.  The '
                 'exception that escaped the read pass is the one to be '
                 'dispatched.)' % pending) for k, w in viol]
    if (var['froute'], var['eroute']) != ('keyword', 'keyword'):
        note = '  (The final handler was configured through %s%s, the exit ' \
            'callback through %s%s: the routing must be the same as with ' \
            'the constructor keywords.)' % (
                ROUTE_TEXT[var['froute']],
                '' if var['froute'] == 'keyword' else
                ', replacing the mode %s given to the constructor'
                % PREV[final],
                ROUTE_TEXT[var['eroute']],
                '' if var['first_end'] is None else
                '; the first connection had ended %s' % (
                    'with the server\'s disconnect / the end of a status '
                    'query' if var['first_end'] == 'clean' else
                    'with a failure of its own'))
        viol = [(k, w + note) for k, w in viol]
    return x, viol


def label(origin, var):
    if not isinstance(var, dict):       # (older callers: pending or None)
        var = variant(pending=var)
    s = origin
    if var['pending'] is not None:
        s += '+write-error-pending(%s)' % var['pending']
    if var['via'] != 'connect':
        s += '+new-connection-via-%s' % var['via']
    if (var['froute'], var['eroute']) != ('keyword', 'keyword'):
        s += '+final-by-%s,exit-by-%s' % (var['froute'], var['eroute'])
        if var['first_end'] is not None:
            s += '(first use %s)' % var['first_end']
    return s


def case_of(origin, final, chain, var):
    case = {'origin': origin, 'final': final,
            'chain': [list(h) for h in chain]}
    case.update(var)
    return case


def w_batch(ctx, task):
    origin, final, batch, var = task
    lab = label(origin, var)
    pending = var['pending']
    for chain in batch:
        x, viol = one(origin, chain, final, var)
        ctx.count()
        if chain or final in ('returns', 'raises'):
            ctx.note_distinct(1)
        exp = reference(origin, chain, final)
        ctx.outcome('recorded=%s reraised=%s reconnected=%s ncalls=%d'
                    % (exp[1], exp[2],
                       exp[3] and 'via ' + var['via'], len(exp[0])))
        ctx.cls('origin %s' % label(origin, variant(pending=pending)))
        if pending is not None and x.failure is None and \
                x.result.get('write_failed') and \
                x.result.get('fault_reached'):
            ctx.cls('write pass failed before the fault: %s' % lab)
        if exp[3] and exp[2]:
            ctx.cls('re-raise due after a handler has started a new '
                    'connection (via %s)' % var['via'])
        if (var['froute'], var['eroute']) != ('keyword', 'keyword'):
            rl = 'final by %s, exit callback by %s%s' % (
                var['froute'], var['eroute'],
                '' if var['first_end'] is None
                else ', first use ended: ' + var['first_end'])
            if x.failure is None and 'first_use_incomplete' in x.result:
                ctx.cls('route not judged (first use did not end): ' + rl)
            else:
                ctx.cls('route judged: ' + rl)
        for key, what in viol:
            ctx.violation(
                '%s final=%s %s' % (lab, final, key),
                'origin %s, handler chain (filter, early, action) %r, final '
                'handler %s: %s' % (origin, list(chain), final, what),
                case_of(origin, final, chain, var))


def route_variants(origin):
    """All (froute, eroute, first_end) except the plain one.  The route of
    the exit callback is varied independently only where the exit callback
    can raise (origin exit_callback); elsewhere it follows the route of the
    final handler."""
    out = []
    for fr in ROUTES:
        for er in (ROUTES if origin == 'exit_callback' else (fr,)):
            if (fr, er) == ('keyword', 'keyword'):
                continue
            for fe in (FIRST_ENDS if 'second' in (fr, er) else (None,)):
                out.append(variant(froute=fr, eroute=er, first_end=fe))
    return out


# ---------------------------------------------------------------------------
# schedules: a handler that hands the failure over to a user thread and waits

HANDOFF_POS = ('handler', 'final')
HANDOFF_OPS = ('disconnect', 'disconnect_immediate', 'write_forced',
               'connect')
HANDOFF_THEN = ('return', 'raise')


def handoff_body(W, pos, op, then='return'):
    """The networking thread fails (an ordinary listener raises); the
    exception handler at position pos signals a user thread and waits until
    that thread's call on the connection has returned; then it returns or
    raises a replacement (a registered handler that raises has caught
    nothing: with no final handler the replacement is re-raised from the
    thread - also when the user thread has started a new connection)."""
    S = W.S
    from minecraft.networking.packets import clientbound, serverbound
    W.serve(login=[('success',)], play_script=[])
    flags = {'failed': False, 'done': False}
    calls, results = [], {}

    def blocking(tag):
        def fn(exc, info):
            calls.append((tag, type(exc).__name__))
            S.event('handler', tag)
            flags['failed'] = True
            S.block_until(lambda: flags['done'], 'handoff')
            if then == 'raise':
                raise (REPLS[0] if tag == 'handler' else FinalRepl)(
                    'from the %s, after the hand-over' % tag)
        return fn
    conn = W.connection(allowed_versions={V},
                        handle_exception=blocking('final')
                        if pos == 'final' else None)
    if pos == 'handler':
        conn.register_exception_handler(blocking('handler'), Orig)

    def raiser(p):
        if p.keep_alive_id == 5:
            raise Orig('from listener')
    conn.register_packet_listener(raiser, clientbound.play.KeepAlivePacket)
    conn.connect()
    W.settle()
    srv0 = W.servers[0]
    first = S.agents[1] if len(S.agents) > 1 else None
    if first is None or srv0.state != 'play' or calls or \
            type(conn.reactor).__name__ != 'PlayingReactor':
        raise ToolError('hand-over scenario: set-up did not reach play: %r '
                        '%r %r' % (srv0.state, srv0.errors, calls))

    def user():
        # (if the thread ends without any handler having run there is
        # nothing to wait for: reported below)
        S.block_until(lambda: flags['failed'] or first.state == 'done',
                      'wait-for-failure')
        S.event('call', op)
        try:
            if op == 'disconnect':
                conn.disconnect()
            elif op == 'disconnect_immediate':
                conn.disconnect(immediate=True)
            elif op == 'write_forced':
                conn.write_packet(serverbound.play.ChatPacket(
                    message='from the user thread'), force=True)
            elif op == 'connect':
                conn.connect()
            else:
                raise ToolError(op)
            results['op'] = 'ok'
        except ToolError:
            raise
        except Exception as e:
            results['op'] = 'raised %s' % type(e).__name__
        S.event('ret', op, results['op'])
        flags['done'] = True

    what = 'the %s hands the failure to a user thread and waits for its ' \
        '%s() to return%s' % (
            'registered exception handler' if pos == 'handler'
            else 'final handler', op,
            '' if then == 'return' else ', then raises a replacement')
    # reference: like try/except
    exp_recorded = 'Orig' if then == 'return' else \
        REPLS[0].__name__ if pos == 'handler' else 'FinalRepl'
    exp_reraised = exp_recorded if then == 'raise' and pos == 'handler' \
        else None
    S.window = True
    try:
        a = S.spawn(user, name='user')
        srv0.play(('keepalive', 5))
        S.join(a)
        S.wait_quiescent()
    except pysched.Failure as f:
        if f.kind != 'deadlock':
            raise
        return {'outcome': ('deadlock',), 'violations': [(
            'deadlock', '%s: the two threads wait for each other for ever '
            '(%s); handlers called so far %r, user call %s.  A handler runs '
            'on the failed networking thread; the thread cannot end and the '
            'connection is never closed unless the call from the other '
            'thread can get through while the handler is running.'
            % (what, f.detail, calls, results.get('op', 'has not returned')))]}
    S.window = False
    W.settle()
    if a.exc is not None:
        raise ToolError('user agent crashed: %r' % (a.exc,))
    viol = []
    if calls != [(pos, 'Orig')]:
        viol.append(('handler-calls', '%s: handlers were called as %r, '
                     'expected %r' % (what, calls, [(pos, 'Orig')])))
    if first.state != 'done':
        viol.append(('thread-survives', '%s: the networking thread in which '
                     'the exception occurred is still alive (%r; stuck: %r)'
                     % (what, first, S.stuck())))
    got_reraised = type(first.exc).__name__ if first.exc is not None \
        else None
    if got_reraised != exp_reraised:
        viol.append(('reraise', '%s: re-raised from the thread: %r, '
                     'expected %r (%s)' % (
                         what, got_reraised, exp_reraised,
                         'a handler caught it / a final handler is '
                         'configured' if exp_reraised is None else
                         'the handler that raised has caught nothing and no '
                         'final handler is configured')))
    if type(conn.exception).__name__ != exp_recorded:
        viol.append(('recorded-exception', '%s: connection.exception is %r, '
                     'expected the last exception, a %s'
                     % (what, conn.exception, exp_recorded)))
    started_new = op == 'connect' and results.get('op') == 'ok'
    if not viol and started_new:
        # the user thread has started a new connection on the handler's
        # behalf: it must be left alone
        srv1 = W.servers[-1]
        alive = len(W.servers) == 2 and srv1.state == 'play'
        if alive:
            srv1.play(('keepalive', 777))
            W.settle()
            alive = ('keepalive', 777) in srv1.play_rx and \
                not srv1.client_gone and \
                type(conn.reactor).__name__ == 'PlayingReactor'
        if not alive:
            viol.append(('new-connection-disturbed', '%s: connect() was '
                         'accepted, but afterwards the new connection is '
                         'not a live play connection (connections %d, server '
                         'state %s, live threads %r)'
                         % (what, len(W.servers), srv1.state, S.live())))
    elif not viol:
        if not srv0.client_gone:
            viol.append(('not-closed', '%s: the failed connection was not '
                         'closed at the server' % what))
        if S.live():
            viol.append(('thread-survives', '%s: threads still alive: %r'
                         % (what, S.live())))
        else:
            try:
                conn.connect()
                W.settle()
                srvn = W.servers[-1]
                srvn.play(('keepalive', 778))
                W.settle()
                if ('keepalive', 778) not in srvn.play_rx:
                    viol.append(('not-reusable', '%s: afterwards a new '
                                 'connection of the same object does not '
                                 'answer keep-alives' % what))
            except Exception as e:
                viol.append(('not-reusable', '%s: afterwards connect() on '
                             'the same object raised %s: %s'
                             % (what, type(e).__name__, e)))
    outcome = (results.get('op'), tuple(calls), len(W.net.conns),
               srv0.client_gone, got_reraised)
    return {'outcome': outcome, 'violations': viol}


def handoff_factory(params):
    pos, op = params['pos'], params['op']
    then = params.get('then', 'return')

    def scenario(prefix, expect, visited=None, budget=0):
        return harness.run(lambda W: handoff_body(W, pos, op, then), prefix,
                           tracing=True, expect=expect, horizon=60000,
                           visited=visited,
                           budget=budget if budget != 'replay' else 0,
                           lenient=budget == 'replay')
    return scenario


def run(ctx):
    # (the pool of the schedule explorer is forked before anything runs)
    ex = explore.Explorer(memo=False)
    try:
        _run(ctx, ex)
    finally:
        ex.close()


def _run(ctx, ex):
    maxlen = 3 if ctx.thorough else 2
    allc = list(chains(maxlen))
    # new connection started through status(): one handler less
    stac = [c for c in chains(maxlen - 1) if has_reconnect(c)]
    # with a write error pending: one handler less (through status(): two)
    penc = list(chains(maxlen - 1))
    pens = [c for c in chains(maxlen - 2) if has_reconnect(c)]
    # the other routes of configuration: one handler less
    rouc = list(chains(maxlen - 1))
    rous = [c for c in chains(maxlen - 2) if has_reconnect(c)]
    tasks = []

    def add(origin, final, cs, var):
        for i in range(0, len(cs), 40):
            tasks.append((origin, final, cs[i:i + 40], var))
    for origin in ORIGINS:
        for final in FINALS:
            add(origin, final, allc, variant())
            add(origin, final, stac, variant(via='status'))
            for var in route_variants(origin):
                add(origin, final, rouc, var)
                add(origin, final, rous, dict(var, via='status'))
    for origin in PENDING_ORIGINS:
        for final in FINALS:
            for env in PENDING_ENVS:
                add(origin, final, penc, variant(pending=env))
                add(origin, final, pens, variant(pending=env, via='status'))
    if ctx.seed:
        import random
        random.Random(ctx.seed).shuffle(tasks)
    ctx.pmap(w_batch, tasks)
    ctx.extra['chains'] = len(allc)
    ctx.extra['chains_new_connection_via_status'] = len(stac)
    ctx.extra['chains_with_write_error_pending'] = len(penc) + len(pens)
    ctx.extra['chains_per_other_route'] = len(rouc) + len(rous)
    ctx.extra['other_routes'] = {o: len(route_variants(o)) for o in ORIGINS}
    ctx.sample({'origin': 'listener', 'final': 'None',
                'chain': [['repl', False, 'return'], ['orig', True, 'raise']],
                'expected': reference('listener', (('repl', False, 'return'),
                                                   ('orig', True, 'raise')),
                                      'None')})
    ctx.sample({'origin': 'decoder', 'final': 'None', 'via': 'status',
                'chain': [['all', False, 'reconnect_raise']],
                'expected': reference(
                    'decoder', (('all', False, 'reconnect_raise'),), 'None')})
    if ctx.violations:
        return
    # vacuity: on a tree that defers a write error (as pyCraft does) every
    # (origin, environment) pair reaches the fault with the error pending.
    # A tree that gives up at the failed write never gets there - the
    # statement says nothing about it - so only the COMPLETE absence of the
    # class is treated as a harness fault when the plain origins were hit;
    # partial absence is recorded in the evidence.
    missing = [label(origin, env) for origin in PENDING_ORIGINS
               for env in PENDING_ENVS if not ctx.classes.get(
                   'write pass failed before the fault: %s'
                   % label(origin, env))]
    ctx.extra['pending_write_error_cases_never_reached'] = missing
    # vacuity: a route with a first use is judged only when the first use
    # left the object idle; the plain cases are silent here, so it must have
    not_judged = sorted(k for k in ctx.classes
                        if k.startswith('route not judged'))
    if not_judged:
        raise ToolError('second-use cases whose first use never ended '
                        'although the same conversations pass as first '
                        'uses: %r' % (not_judged,))
    for via in VIAS:
        if not ctx.classes.get('re-raise due after a handler has started a '
                               'new connection (via %s)' % via):
            raise ToolError('no case with a re-raise after a reconnect via '
                            + via)
    bound = 2 if ctx.thorough else 1
    for pos in HANDOFF_POS:
        for op in HANDOFF_OPS:
            for then in HANDOFF_THEN:
                params = {'pos': pos, 'op': op}
                name = 'handoff %s %s' % (pos, op)
                if then != 'return':
                    params['then'] = then
                    name += ' then-' + then
                res = ex.explore(ctx, handoff_factory, params, bound,
                                 label=name + ' ')
                ctx.cls('%s bound=%d' % (name, bound))
                ctx.extra[name] = {
                    'preemption_bound': bound,
                    'complete_executions': res.execs,
                    'distinct_outcomes': len(res.outcomes)}
    ctx.sample({'schedule of': 'handoff', 'pos': 'final', 'op': 'disconnect',
                'choices': 'index into the enabled agents at each choice '
                'point'})


def replay(ctx, case):
    if 'choices' in case:
        harness.setup()
        params = case['params']
        scenario = handoff_factory(params)
        x = scenario(list(case['choices']), None, None, 'replay')
        if getattr(x, 'diverged', False):
            print('  note: the recorded schedule cannot be followed on this '
                  'tree (different choice points); what the execution did '
                  'instead is judged below')
        ctx.count()
        res = x.result or {}
        viol = list(res.get('violations', ()))
        if x.failure is not None:
            viol.append((x.failure[0], '%s: %s' % x.failure))
        name = 'handoff %s %s' % (params['pos'], params['op'])
        if params.get('then', 'return') != 'return':
            name += ' then-' + params['then']
        for key, what in viol:
            ctx.violation('%s %s' % (name, key), what, case)
        return
    chain = tuple(tuple(h) for h in case['chain'])
    var = variant(**{k: case[k] for k in BASE if k in case})
    x, viol = one(case['origin'], chain, case['final'], var)
    ctx.count()
    for key, what in viol:
        ctx.violation('%s final=%s %s' % (label(case['origin'], var),
                                          case['final'], key), what, case)
