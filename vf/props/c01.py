"""C01 - framed packet stream survives any threshold, cipher and read
segmentation.

Two directions, both on the narrowest seams of the real code, no threads:

* WRITE side: real ``Packet.write`` (through the real
  ``EncryptedSocketWrapper`` when encryption is on) -> bytes -> independent
  reader (``refproto.framing.Deframer``, ``refproto.cfb8.CFB8``).
* READ side: independent writer (``refproto.framing.frame``, incl. legal frame
  shapes pyCraft's own writer never emits) -> bytes -> scripted raw stream that
  hands out the bytes in a chosen segmentation -> real
  ``EncryptedFileObjectWrapper`` (when on) -> real ``PacketReactor.read_packet``
  with the module-level ``select`` rebound for the duration.
"""
import hashlib
import itertools
import random
import zlib

from vf.runner import use_repo, ToolError
from vf.refproto import codec, framing
from vf.refproto.cfb8 import CFB8

LEVEL = 'exploration'
RULE = (
    'Configurations: compression threshold in {disabled(None), -1, 0, 1, 2, '
    '64, 256, two seed-derived extras} x encryption {off, on (seed-derived '
    'secret)}, protocol 757.  Packet letter = (kind, size n, content, frame '
    'shape).  WRITE side kinds: clientbound/serverbound PluginMessagePacket '
    '(String + TrailingByteArray), serverbound ChatPacket, KeepAlivePacket, '
    'generic Packet subclass with instance ids 0x7D, 0x80, 0x1234, 0x4000; '
    'READ side kinds: clientbound PluginMessage, KeepAlive, ChatMessage and '
    'unknown ids 0x7D, 0x80, 0x1234, 0x4000.  Sizes: n in {0,1,2}, every n '
    'that puts len(id+payload) at T-2..T+2, every n that puts the frame '
    'length field at 127/128/16383/16384 (plain, data-length-0 and '
    'compressed forms; quick tier: the 16383/16384 sizes only for two kinds '
    'and two contents).  Content: zeros, counter bytes, seed-derived '
    'incompressible, and (read side) frame-like payload made of valid '
    'keep-alive frames.  Read-side frame shapes: vanilla rule, compressed '
    'although small, uncompressed although large, zlib levels 0/1/9, '
    'non-canonical length prefix padded by 1 or 2 bytes (<= 3 bytes in all), '
    'compressed+padded (quick tier: all nine shapes for three kinds, the '
    'first three for the other four).  Sequences: every single letter of the '
    'full product; all sequences of length 2 and 3 over a reduced '
    'per-threshold alphabet (write: 5 kinds x {n=0, body=T, body=T+1} + 2 '
    'keep-alives; read: 7-8 letters mixing known/unknown ids, compressed/'
    'uncompressed, padded, frame-like payloads, three DIFFERENT unknown '
    'ids 0x7D/0x80/0x1234, two keep-alive ids, two plugin payloads; quick '
    'tier: length 3 over the first six of them, which keep the three '
    'unknown ids, so U K U / K U U / U U U with different ids occur under '
    'every configuration); all sequences of length 2-3 over a 10-letter '
    'IDENTITY alphabet (four unknown ids, three keep-alive ids, three '
    'plugin-message payloads; segmentations: whole, 1-byte and 3-byte reads '
    'in the quick tier, the full light set in the thorough tier); all '
    'sequences of length 1-3 '
    'over 3-4 tiny letters (unknown ids 0x7D, 0x80, 0x1234, 2-4 byte '
    'frames) and over 3-4 mixed '
    'letters (keep-alive, plugin message, compressed plugin message): the '
    'CORE streams.  READ SEGMENTATIONS per stream of L bytes: whole; uniform '
    'chunk sizes 1..8 (streams over 4 KiB: a subset, each pass is O(L^2)); '
    'ALL 2^(L-1) compositions for core streams with L <= 12 (quick) / 16 '
    '(thorough); every 1-cut when L <= 128 (quick) / 4096 (thorough), '
    'otherwise the cuts within 2 bytes of every structural offset (frame '
    'start, end of length prefix, end of data-length field, frame end), the '
    'first and last 8, and a stride of L/48; every 2-cut for core streams '
    'with L <= 56 (quick) / 400 (thorough) and, thorough only, for every '
    'reduced-alphabet sequence of length 2 with L <= 400 and of length 3 '
    'with L <= 64; for all other streams only the 2-cuts whose both cuts are '
    'structural offsets (thorough: within 1 byte of one) - i.e. for those '
    'streams the 2-cuts are a STRIDED subset, not all.  With encryption the '
    'segmentation applies to the ciphertext.  Each stream is also read '
    'whole and in 1-byte reads by a real PlayingReactor (full id table of '
    '757); all other executions use a PacketReactor subclass (real __init__ '
    'and read_packet) whose table holds the three known classes.  One '
    'execution = one (configuration, sequence) written, or one '
    '(configuration, sequence, segmentation) read; executions are distinct '
    'by construction (streams de-duplicated by configuration and letters, '
    'segmentations by cut set); the two un-segmented reads of a stream are '
    'counted as trivial.  Read oracle per execution: each returned packet '
    'is judged right after its read_packet call (class, id, fields, raw '
    'stream offset = frame end) AND all returned objects are kept and '
    'judged again after the final None (class, id, every field), and no two '
    'frames may have yielded the same object.  Part D, two connections in '
    'one process (real Connection objects and networking threads on the '
    'virtual network, canonical schedule): the first frame of connection 1 '
    '(unknown id, 40 bytes; thorough also 200) arrives cut at EVERY '
    'position, connection 2 receives {a keep-alive, an unknown frame, both} '
    'in the gap, then the rest and a keep-alive arrive on connection 1; '
    'without and with compression 64; each connection must deliver exactly '
    'what its own server sent and answer exactly its own keep-alives.')
ASSUMPTIONS = [
    'refproto.framing / refproto.cfb8 (self-tested against hand-made frames '
    'and the NIST CFB8 vector) define the wire format',
    'a scripted file object whose read(n) returns at most the rest of the '
    'current segment models a socket read that returns early; select is '
    'rebound to report readable exactly while undelivered bytes remain',
    'packet ids of protocol 757 used by the oracle are the published ones '
    '(0x18/0x21/0x0F clientbound, 0x0A/0x03/0x0F serverbound)',
    'end of stream inside a frame is out of scope (C15)',
    'a reader that performs more than 8*L+256 raw reads on an L byte stream '
    'is spinning',
]

V = 757
CHANNEL = 'vf:c01'
UUID = '01234567-89ab-cdef-0123-456789abcdef'
KA_VALUES = (0, -1, 2 ** 63 - 1, -2 ** 63, 0x0102030405060708)

# published ids, protocol 757 (1.18.1)
W_IDS = {'cpm': 0x18, 'spm': 0x0A, 'chat': 0x03, 'ka': 0x0F,
         'g1': 0x7D, 'g2': 0x80, 'g3': 0x1234, 'g4': 0x4000}
R_IDS = {'cpm': 0x18, 'cka': 0x21, 'cchat': 0x0F,
         'u1': 0x7D, 'u2': 0x80, 'u3': 0x1234, 'u4': 0x4000}
FIXED = ('ka', 'cka')                 # payload size does not depend on n

SHAPES = {            # name -> (force_compress, zlib level, prefix padding)
    'v': (None, 6, 0), 'C': (True, 6, 0), 'U': (False, 6, 0),
    'C0': (True, 0, 0), 'C1': (True, 1, 0), 'C9': (True, 9, 0),
    'p1': (None, 6, 1), 'p2': (None, 6, 2), 'Cp1': (True, 6, 1),
}
SHAPES_PLAIN = ('v', 'p1', 'p2')
SHAPES_COMP = ('v', 'C', 'U', 'C0', 'C1', 'C9', 'p1', 'p2', 'Cp1')


class Horizon(BaseException):
    pass


# -- content -----------------------------------------------------------------

_RND = {}


def _rnd(seed, n):
    have = _RND.get(seed, b'')
    if len(have) < n:
        have = hashlib.shake_256(b'c01-content-%d' % seed).digest(
            max(n, 20000))
        _RND[seed] = have
    return have[:n]


def secret_for(seed):
    return hashlib.shake_256(b'c01-secret-%d' % seed).digest(16)


def content(cc, n, seed, comp):
    if cc == 'z':
        return bytes(n)
    if cc == 'c':
        return bytes(i & 0xFF for i in range(n))
    if cc == 'r':
        return _rnd(seed, n)
    if cc == 'f':       # looks like a run of keep-alive frames
        unit = framing.frame(R_IDS['cka'], codec.sint(0x1122334455667788, 8),
                             compression=0 if comp else None,
                             force_compress=False if comp else None)
        return (unit * (n // len(unit) + 1))[:n]
    raise ToolError('content class %r' % cc)


def _text(data):
    return ''.join(chr(0x20 + b % 95) for b in data)


def letter_payload(kind, n, cc, seed, comp):
    """-> (id, payload bytes after the id, expected field values)."""
    if kind in ('cpm', 'spm'):
        data = content(cc, n, seed, comp)
        return (codec.string(CHANNEL) + data,
                {'channel': CHANNEL, 'data': data})
    if kind == 'chat':
        t = _text(content(cc, n, seed, comp))
        return codec.string(t), {'message': t}
    if kind == 'cchat':
        t = _text(content(cc, n, seed, comp))
        return (codec.string(t) + codec.sint(n % 3, 1) +
                codec.uuid_bytes(UUID),
                {'json_data': t, 'position': n % 3, 'sender': UUID})
    if kind in FIXED:
        v = KA_VALUES[n % len(KA_VALUES)]
        return codec.sint(v, 8), {'keep_alive_id': v}
    data = content(cc, n, seed, comp)
    return data, {'data': data}


def body_len(kind, n):
    ids = W_IDS if kind in W_IDS else R_IDS
    return len(codec.varnum(ids[kind])) + \
        len(letter_payload(kind, n, 'z', 0, False)[0])


def solve(kind, b):
    """n with len(id + payload) == b, or None."""
    if kind in FIXED:
        return None
    n0 = b - body_len(kind, 0)
    for n in (n0, n0 - 1, n0 - 2, n0 - 3):
        if n >= 0 and body_len(kind, n) == b:
            return n
    return None


_SCAN = {}


def compressed_hits(kind, cc, F, seed, comp):
    """all n for which the compressed (level 6) frame has length field F."""
    key = (kind, cc, F, seed if cc == 'r' else 0, comp)
    if key in _SCAN:
        return _SCAN[key]
    ids = W_IDS if kind in W_IDS else R_IDS
    idb = codec.varnum(ids[kind])
    out = []
    if kind not in FIXED and cc != 'z':
        lo = solve(kind, max(F - 48, body_len(kind, 0)))
        lo = 0 if lo is None else lo
        for n in range(lo, lo + 64):
            body = idb + letter_payload(kind, n, cc, seed, comp)[0]
            if len(codec.varnum(len(body))) + \
                    len(zlib.compress(body, 6)) == F:
                out.append(n)
    _SCAN[key] = out
    return out


def sizes_for(kind, T, cc, seed, big):
    if kind in FIXED:
        return [0, 1, 2]
    comp = T is not None
    s = {0, 1, 2}
    if comp and T >= 0:
        for b in range(T - 2, T + 3):
            s.add(solve(kind, b))
    for F in (127, 128) + ((16383, 16384) if big else ()):
        if not comp:
            s.add(solve(kind, F))
        else:
            s.add(solve(kind, F - 1))
            s.update(compressed_hits(kind, cc, F, seed, comp))
    s.discard(None)
    return sorted(s)


# -- the real code, imported lazily -------------------------------------------

_M = {}


class _Opts(object):
    def __init__(self, T):
        self.compression_enabled = T is not None
        self.compression_threshold = -1 if T is None else T
        self.address, self.port = 'c01.invalid', 25565


class _Conn(object):
    def __init__(self, context, T):
        self.context = context
        self.options = _Opts(T)


class _Select(object):
    """Stand-in for the ``select`` module inside connection.py."""
    raw = None

    def select(self, r, w, x, timeout=None):
        raw = self.raw
        if raw is not None and raw.pos < raw.end:
            return (list(r), [], [])
        return ([], [], [])


SHIM = _Select()


def M():
    if _M:
        return _M
    use_repo()
    import warnings
    warnings.filterwarnings('ignore', message='.*CFB8.*')   # deprecation note
    from minecraft.networking import connection as C
    from minecraft.networking import encryption as E
    from minecraft.networking.packets import Packet, clientbound, serverbound
    from minecraft.networking.types import TrailingByteArray

    class Generic(Packet):
        packet_name = 'c01 generic'
        definition = [{'data': TrailingByteArray}]

    cb, sb = clientbound.play, serverbound.play
    known = {cb.PluginMessagePacket, cb.KeepAlivePacket, cb.ChatMessagePacket}

    class MiniReactor(C.PacketReactor):
        """The real __init__ and read_packet over a three-class table."""
        get_clientbound_packets = staticmethod(lambda context: set(known))

    context = C.ConnectionContext(protocol_version=V)
    full = C.PlayingReactor(_Conn(context, None))
    for k in ('u1', 'u2', 'u3', 'u4'):
        if R_IDS[k] in full.clientbound_packets:
            raise ToolError('id 0x%X is not unknown at protocol %d'
                            % (R_IDS[k], V))
    _M.update(C=C, E=E, Packet=Packet, Generic=Generic, context=context,
              Mini=MiniReactor, Full=C.PlayingReactor,
              wcls={'cpm': cb.PluginMessagePacket,
                    'spm': sb.PluginMessagePacket, 'chat': sb.ChatPacket,
                    'ka': sb.KeepAlivePacket},
              rcls={'cpm': cb.PluginMessagePacket, 'cka': cb.KeepAlivePacket,
                    'cchat': cb.ChatMessagePacket})
    return _M


class _Rebound(object):
    """``with _Rebound():`` - connection.select is the shim inside."""

    def __enter__(self):
        self.C = M()['C']
        self.old = self.C.select
        self.C.select = SHIM

    def __exit__(self, *a):
        self.C.select = self.old
        SHIM.raw = None


# -- WRITE side --------------------------------------------------------------

class Sink(object):
    def __init__(self):
        self.chunks = []
        self.total = 0

    def send(self, b):
        b = bytes(b)
        self.chunks.append(b)
        self.total += len(b)
        return len(b)

    sendall = send


def build_packet(m, kind, fields):
    if kind in m['wcls']:
        p = m['wcls'][kind](m['context'])
    else:
        p = m['Generic'](m['context'])
        p.id = W_IDS[kind]
    for k, v in fields.items():
        setattr(p, k, v)
    return p


def lstr(letter):
    return '/'.join(str(x) for x in letter)


def write_exec(ctx, T, enc, letters, seed, stats=None):
    """One write-side execution.  letters: [(kind, n, content)]."""
    m = M()
    comp = T is not None
    secret = secret_for(seed)
    sink = Sink()
    sock = sink
    case = {'side': 'write', 'T': T, 'enc': enc, 'seed': seed,
            'letters': [list(l) for l in letters]}
    key = 'write T=%s enc=%d %s' % (T, enc, '+'.join(lstr(l) for l in letters))
    want, ends = [], []
    try:
        if enc:
            cipher = m['E'].create_AES_cipher(secret)
            sock = m['E'].EncryptedSocketWrapper(sink, cipher.encryptor(),
                                                 cipher.decryptor())
        for kind, n, cc in letters:
            payload, fields = letter_payload(kind, n, cc, seed, comp)
            want.append((W_IDS[kind], payload))
            p = build_packet(m, kind, fields)
            if comp:
                p.write(sock, T)       # as Connection._write_packet does
            else:
                p.write(sock)
            ends.append(sink.total)
    except Exception as e:
        ctx.outcome('write: raised')
        ctx.violation(key, 'writing %s with threshold %r, encryption %s '
                      'raised %s: %s' % ([lstr(l) for l in letters], T, enc,
                                         type(e).__name__, e), case)
        return False
    wire = b''.join(sink.chunks)
    plain = CFB8(secret).decrypt(wire) if enc else wire
    start = 0
    for i, end in enumerate(ends):
        frames, pending, err = framing.deframe_all(plain[start:end],
                                                   T if comp else None)
        got = [(f[0], f[1]) for f in frames]
        if err or pending or got != [want[i]]:
            whole = framing.deframe_all(plain, T if comp else None)
            ctx.outcome('write: not recovered')
            ctx.violation(
                key, 'packet %d of %s written with threshold %r, encryption '
                '%s: the bytes of this packet (%d..%d of the %sstream, %s) '
                'decode as %s (error %r, %d bytes left over), expected one '
                'frame id 0x%X payload %s; the whole stream yields %d frames '
                'for %d packets'
                % (i, [lstr(l) for l in letters], T, enc, start, end,
                   'decrypted ' if enc else '',
                   _hx(plain[start:end]), _fr(got), err, pending,
                   want[i][0], _hx(want[i][1]), len(whole[0]), len(want)),
                case)
            return False
        if stats is not None:
            flen = codec.Reader(plain[start:end]).varnum(5)
            if not comp:
                stats['write: frame without data-length'] += 1
            elif frames[0][2]:
                stats['write: frame compressed'] += 1
            else:
                stats['write: frame data-length 0'] += 1
            if flen in (127, 128, 16383, 16384):
                stats['write: frame length %d' % flen] += 1
        start = end
    ctx.outcome('write: %d packet(s) recovered exactly' % len(letters))
    return True


def _hx(b):
    b = bytes(b)
    return b.hex() if len(b) <= 40 else '%s..(%d bytes)' % (b[:40].hex(),
                                                             len(b))


def _fr(frames):
    return [(hex(i), _hx(p)) for i, p in frames[:4]]


# -- READ side ---------------------------------------------------------------

class Scripted(object):
    """Raw file object: read(n) returns at most the rest of the current
    segment and never more than n; b'' at the end."""

    def __init__(self, data, cuts):
        self.data = data
        self.end = len(data)
        self.bounds = tuple(cuts) + (self.end,)
        self.bi = 0
        self.pos = 0
        self.calls = 0
        self.limit = 8 * self.end + 256

    def read(self, n=-1):
        self.calls += 1
        if self.calls > self.limit:
            raise Horizon()
        pos = self.pos
        if pos >= self.end:
            return b''
        bounds = self.bounds
        while bounds[self.bi] <= pos:
            self.bi += 1
        stop = bounds[self.bi]
        if n is not None and n >= 0 and pos + n < stop:
            stop = pos + n
        self.pos = stop
        return self.data[pos:stop]

    def fileno(self):
        return 0x7FFF

    def close(self):
        pass


class Stream(object):
    """A read-side stream: reference bytes + what the reader must report."""

    def __init__(self, T, enc, letters, seed):
        m = M()
        self.T, self.enc, self.letters, self.seed = T, enc, letters, seed
        comp = T is not None
        self.secret = secret_for(seed)
        plain = b''
        self.expected = []       # (frame end, class, id, ((field, value)..))
        self.marks = set()       # structural offsets
        self.tags = []
        for kind, n, cc, shape in letters:
            force, level, pad = SHAPES[shape]
            payload, fields = letter_payload(kind, n, cc, seed, comp)
            pid = R_IDS[kind]
            if not comp:
                force = None
            f = framing.frame(pid, payload, compression=T, force_compress=force,
                              level=level, pad_length_prefix=pad)
            r = codec.Reader(f)
            flen = r.varnum(5)
            if r.pos > 3:
                raise ToolError('length prefix longer than 3 bytes')
            s = len(plain)
            self.marks.update((s, s + r.pos))
            tag = ['known' if kind in m['rcls'] else 'unknown id']
            if comp:
                d = r.varnum(5)
                self.marks.add(s + r.pos)
                blen = len(codec.varnum(pid)) + len(payload)
                if d:
                    tag.append('compressed')
                    if T < 0 or blen < T:
                        tag.append('compressed below threshold')
                    if level != 6:
                        tag.append('zlib level %d' % level)
                else:
                    tag.append('data-length 0')
                    if 0 <= T <= blen:
                        tag.append('uncompressed at/above threshold')
            else:
                tag.append('no data-length')
            if pad:
                tag.append('padded length prefix')
            if cc == 'f' and n >= 10:
                tag.append('frame-like payload')
            if flen in (127, 128, 16383, 16384):
                tag.append('frame length %d' % flen)
            self.tags.append(tag)
            plain += f
            cls = m['rcls'].get(kind, m['Packet'])
            if cls is m['Packet']:
                fields = {}
            self.expected.append((len(plain), cls, pid,
                                  tuple(sorted(fields.items()))))
        self.plain = plain
        self.wire = CFB8(self.secret).encrypt(plain) if enc else plain
        self.L = len(plain)
        self.conn = _Conn(m['context'], T)
        self.m = m

    def key(self):
        return 'read T=%s enc=%d %s' % (self.T, self.enc,
                                        '+'.join(lstr(l) for l in self.letters))

    def run(self, cuts, reactor='Mini'):
        """One read-side execution -> None, or a text saying what failed."""
        m = self.m
        raw = Scripted(self.wire, cuts)
        SHIM.raw = raw
        try:
            if self.enc:
                dec = m['E'].create_AES_cipher(self.secret).decryptor()
                f = m['E'].EncryptedFileObjectWrapper(raw, dec)
            else:
                f = raw
            reactor = m[reactor](self.conn)
            start = 0
            got = []
            for i, exp in enumerate(self.expected):
                end = exp[0]
                p = reactor.read_packet(f, 0)
                if p is None:
                    return ('read_packet %d returned None although %d bytes '
                            'were still undelivered' % (i, self.L - raw.pos))
                what = _judge(p, i, exp, raw.pos)
                if what:
                    return what
                if raw.pos != end:
                    return ('packet %d (frame at %d..%d): after read_packet '
                            'the raw stream is at offset %d, so %d byte(s) %s'
                            % (i, start, end, raw.pos, abs(raw.pos - end),
                               'of the next frame were consumed'
                               if raw.pos > end else
                               'of this frame were left in the stream'))
                start = end
                got.append(p)
            p = reactor.read_packet(f, 0)
            if p is not None:
                return ('an extra packet %s was produced after the %d that '
                        'were sent' % (_desc(p), len(self.expected)))
            if raw.pos != self.L:
                return 'stream not consumed: at %d of %d' % (raw.pos, self.L)
            # what a consumer that KEEPS the packets holds at the end: every
            # frame its own object, each still saying what was sent
            for i in range(len(got)):
                for j in range(i):
                    if got[i] is got[j]:
                        return ('packets %d and %d are one and the same '
                                'object (%s): the reader handed out the '
                                'object of frame %d again for frame %d, so a '
                                'listener that keeps what it received holds '
                                '%d packets for %d frames'
                                % (j, i, _desc(got[i]), j, i,
                                   len(set(map(id, got))), len(got)))
            for i, exp in enumerate(self.expected):
                what = _judge(got[i], i, exp, raw.pos)
                if what:
                    return ('after the whole sequence had been read, the '
                            'packet returned for frame %d no longer says '
                            'what was sent: %s; ids kept by a collecting '
                            'consumer: %s, sent: %s'
                            % (i, what,
                               [_id(g) for g in got],
                               ['0x%X' % e[2] for e in self.expected]))
        except Horizon:
            return ('the reader spins: more than %d raw reads on a %d byte '
                    'stream' % (raw.limit, self.L))
        except Exception as e:
            return ('read_packet raised %s: %s (raw stream at %d of %d)'
                    % (type(e).__name__, e, raw.pos, self.L))
        return None

    # -- segmentations ----------------------------------------------------
    def structural(self, radius):
        L = self.L
        out = set()
        for mk in self.marks | {e[0] for e in self.expected}:
            for d in range(-radius, radius + 1):
                if 0 < mk + d < L:
                    out.add(mk + d)
        return out

    def segmentations(self, mode, thorough):
        """Yields (class label, cuts) without repetition.
        mode: 'min' | 'light' | 'pairs' | 'core'."""
        L = self.L
        seen = set()

        def emit(label, cuts):
            if cuts in seen:
                return None
            seen.add(cuts)
            return (label, cuts)
        comp_max = 16 if thorough else 12
        if mode == 'core' and L <= comp_max:
            # every composition = every subset of the L-1 cut positions
            for mask in range(1 << (L - 1)):
                yield ('all compositions',
                       tuple(i + 1 for i in range(L - 1) if mask >> i & 1))
            return
        r = emit('whole', ())
        if r:
            yield r
        ks = range(1, 9)
        if L > 4096:
            # every 1-byte pass over a 16 KiB frame costs O(L^2) in pyCraft
            main = self.letters[0][3] in ('v', 'C')
            if thorough:
                ks = range(1, 9) if main else (1, 7)
            else:
                ks = (1, 5) if main else (7,)
        if mode == 'min':
            ks = (1, 3)
        for k in ks:
            r = emit('uniform', tuple(range(k, L, k)))
            if r:
                yield r
        if mode == 'min':
            return
        one_all = 4096 if thorough else 128
        if L <= one_all:
            ones = range(1, L)
        else:
            ones = sorted(self.structural(2) | set(range(1, L, max(1, L // 48)))
                          | set(range(1, 9)) | set(range(L - 8, L)))
        for c in ones:
            r = emit('1-cut', (c,))
            if r:
                yield r
        two_all = 0
        if mode == 'core':
            two_all = 400 if thorough else 56
        elif mode == 'pairs':
            two_all = 400 if len(self.letters) <= 2 else 64
        if L <= two_all:
            for a in range(1, L):
                for b in range(a + 1, L):
                    yield ('2-cut (all)', (a, b))
            return
        pts = sorted(self.structural(1 if thorough and L <= 4096 else 0))
        for a, b in itertools.combinations(pts, 2):
            r = emit('2-cut (structural offsets)', (a, b))
            if r:
                yield r


def _desc(p):
    """never repr() a packet: Packet.__repr__ runs pyCraft code."""
    return '<%s object, id %s>' % (type(p).__name__, _id(p))


def _id(p):
    try:
        return '0x%X' % p.id
    except Exception as e:
        return repr(e)


def _judge(p, i, exp, pos):
    """class, id and every field of one returned packet -> None or text."""
    end, cls, pid, fields = exp
    if type(p) is not cls:
        return ('packet %d: got %s (raw stream at %d), expected a %s with id '
                '0x%X' % (i, _desc(p), pos, cls.__name__, pid))
    if p.id != pid:
        return 'packet %d: id 0x%X, expected 0x%X' % (i, p.id, pid)
    for k, v in fields:
        got = getattr(p, k, Horizon)
        if got != v or type(got) is not type(v):
            return ('packet %d (%s): field %s = %s, expected %s'
                    % (i, cls.__name__, k, _val(got), _val(v)))
    return None


def _val(v):
    if isinstance(v, (bytes, bytearray)):
        return _hx(v)
    if v is Horizon:
        return '<missing>'
    r = repr(v)
    return r if len(r) <= 80 else r[:80] + '..'


def seg_name(cuts, L):
    if not cuts:
        return 'whole'
    if len(cuts) > 3:
        k = cuts[0]
        if cuts == tuple(range(k, L, k)):
            return 'uniform-%d' % k
    if len(cuts) <= 16:
        return 'cuts=%s' % ','.join(map(str, cuts))
    return 'cuts=%s..(%d)' % (','.join(map(str, cuts[:12])), len(cuts))


def read_stream(ctx, T, enc, letters, mode, seed):
    """All segmentations of one stream.  Stops at the first failing one."""
    st = Stream(T, enc, letters, seed)
    n = 0
    by = {}
    bad = None
    for reactor, cuts in (('Full', ()), ('Full', tuple(range(1, st.L)))):
        if cuts and st.L > 4096 and not ctx.thorough:
            continue
        n += 1
        what = st.run(cuts, reactor)
        if what:
            bad = (cuts, what, reactor)
            break
    by['PlayingReactor table: whole + 1-byte reads'] = n
    if bad is None:
        for label, cuts in st.segmentations(mode, ctx.thorough):
            n += 1
            by[label] = by.get(label, 0) + 1
            what = st.run(cuts)
            if what:
                bad = (cuts, what, 'Mini')
                break
    ctx.count(n)
    ctx.note_distinct(n - 2)
    for label, k in by.items():
        ctx.cls('read segmentation: ' + label, k)
    for tag in st.tags:
        for t in tag:
            ctx.cls('read frame: ' + t)
    ctx.cls('read stream: %d packet(s)%s' % (len(letters),
                                             ', encrypted' if enc else ''))
    ctx.extra['read_streams'] = ctx.extra.get('read_streams', 0) + 1
    if bad is None and mode == 'core' and len(letters) == 3:
        ctx.sample({'side': 'read', 'threshold': T, 'encrypted': enc,
                    'letters': [lstr(l) for l in letters],
                    'stream': st.plain[:48], 'bytes': st.L,
                    'segmentations': dict(by)}, cap=1)
    if bad is None:
        ctx.outcome('read: %d packet(s) recovered exactly, then None'
                    % len(letters), n)
        return st
    cuts, what, reactor = bad
    ctx.outcome('read: not recovered')
    ctx.outcome('read: %d packet(s) recovered exactly, then None'
                % len(letters), n - 1)
    ctx.violation(
        '%s %s' % (st.key(), seg_name(cuts, st.L)),
        'stream of %d frame(s) %s (threshold %r, encryption %s, %d bytes: '
        '%s) delivered as %s: %s'
        % (len(letters), [lstr(l) for l in letters], T, enc, st.L,
           _hx(st.plain), seg_name(cuts, st.L), what),
        {'side': 'read', 'T': T, 'enc': enc, 'seed': seed,
         'letters': [list(l) for l in letters], 'cuts': list(cuts),
         'reactor': reactor})
    return st


# -- enumeration -------------------------------------------------------------

def thresholds(seed):
    rnd = random.Random('c01-thresholds-%d' % seed)
    extra = [rnd.randrange(3, 64), rnd.randrange(257, 2048)]
    return [None, -1, 0, 1, 2, 64, 256] + extra


def edge(kind, T):
    """sizes at which the compress decision flips (body == T, T+1)."""
    if T is None or T < 0:
        return [2]
    e = [n for n in (solve(kind, T), solve(kind, T + 1)) if n is not None]
    return e or [2]


def write_singles(T, seed, thorough):
    out = []
    for kind in ('cpm', 'spm', 'chat', 'ka', 'g1', 'g2', 'g3', 'g4'):
        for cc in ('z', 'c', 'r'):
            big = thorough or (kind in ('spm', 'g3') and cc in ('c', 'r'))
            for n in sizes_for(kind, T, cc, seed, big):
                if kind in FIXED and cc != 'z':
                    continue
                out.append(((kind, n, cc),))
    return out


def write_alphabet(T):
    al = [('ka', 1, 'z'), ('ka', 2, 'z')]
    for kind in ('cpm', 'spm', 'chat', 'g1', 'g3'):
        al.append((kind, 0, 'c'))
        for n in edge(kind, T):
            al.append((kind, n, 'c'))
    return sorted(set(al))


def prefix_len(kind, n, cc, sh, T, seed):
    """bytes of the canonical length prefix of this letter's frame."""
    force, level, _ = SHAPES[sh]
    payload = letter_payload(kind, n, cc, seed, T is not None)[0]
    f = framing.frame(R_IDS[kind], payload, compression=T, level=level,
                      force_compress=force if T is not None else None)
    r = codec.Reader(f)
    r.varnum(5)
    return r.pos


def read_singles(T, seed, thorough):
    comp = T is not None
    out = []
    for kind in ('cpm', 'cka', 'cchat', 'u1', 'u2', 'u3', 'u4'):
        for cc in ('z', 'c', 'r', 'f'):
            if kind in FIXED and cc != 'z':
                continue
            big = thorough or (kind in ('cpm', 'u3') and cc in ('c', 'r'))
            for n in sizes_for(kind, T, cc, seed, big):
                huge = body_len(kind, n) > 4096
                if not comp:
                    shapes = SHAPES_PLAIN
                elif thorough or (kind in ('cpm', 'cka', 'u3') and not huge):
                    shapes = SHAPES_COMP
                elif huge:
                    shapes = ('v', 'C', 'U', 'C0', 'p1')
                else:
                    shapes = ('v', 'C', 'U')
                for sh in shapes:
                    if SHAPES[sh][2] and prefix_len(
                            kind, n, cc, sh, T, seed) + SHAPES[sh][2] > 3:
                        continue    # the outer length is at most 3 bytes
                    out.append(((kind, n, cc, sh),))
    return out


def read_alphabet(T):
    """reduced alphabet for sequences of length 2 and 3."""
    if T is None:
        return [('cpm', 0, 'c', 'v'), ('cpm', 20, 'r', 'p1'),
                ('cka', 0, 'z', 'v'), ('u1', 0, 'c', 'v'),
                ('u2', 12, 'f', 'p2'), ('u3', 30, 'f', 'v'),
                ('cka', 1, 'z', 'p1'),
                ('cchat', 5, 'c', 'v')]       # [:6] for quick length 3
    big = edge('cpm', T)[-1]
    return [('cpm', 0, 'c', 'v'), ('cpm', max(big, 3), 'r', 'C'),
            ('cka', 0, 'z', 'v'), ('u1', 0, 'c', 'v'),
            ('u2', 12, 'f', 'U'), ('u3', 30, 'f', 'Cp1'),
            ('cka', 1, 'z', 'C1'), ('cchat', 5, 'c', 'p1')]


def tiny_alphabet(T):
    # three DIFFERENT unknown ids: 0x7D, 0x80, 0x1234
    al = [('u1', 0, 'c', 'v'), ('u2', 0, 'c', 'v'), ('u3', 0, 'c', 'v')]
    if T is not None:
        al.append(('u1', 0, 'c', 'C'))
    return al


def identity_alphabet(T):
    """letters that differ in id / field values within one class: four
    unknown ids, three keep-alive ids, three plugin-message payloads."""
    c = 'v' if T is None else 'C'
    return [('u1', 0, 'c', 'v'), ('u2', 1, 'c', 'v'), ('u3', 2, 'c', c),
            ('u4', 0, 'c', 'v'), ('cka', 0, 'z', 'v'), ('cka', 1, 'z', 'v'),
            ('cka', 2, 'z', c if T is not None else 'p1'),
            ('cpm', 0, 'c', 'v'), ('cpm', 1, 'c', 'v'), ('cpm', 3, 'r', c)]


def mixed_alphabet(T, thorough):
    al = [('cka', 2, 'z', 'v'), ('cpm', 1, 'c', 'v')]
    if thorough:
        al.append(('u1', 1, 'c', 'v'))
    if T is not None:
        al.append(('cpm', 9, 'r', 'C'))
    else:
        al.append(('u3', 7, 'f', 'p1'))
    return al


def sequences(al, lengths):
    for k in lengths:
        for seq in itertools.product(al, repeat=k):
            yield tuple(seq)


MODE_RANK = {'min': 0, 'light': 1, 'pairs': 2, 'core': 3}


def read_plan(T, seed, thorough):
    """{letters: mode} for one threshold."""
    plan = {}

    def add(seq, mode):
        if MODE_RANK[mode] > MODE_RANK.get(plan.get(seq), -1):
            plan[seq] = mode
    for seq in read_singles(T, seed, thorough):
        add(seq, 'light')
    al = read_alphabet(T)
    for seq in sequences(al, (2,)):
        add(seq, 'pairs' if thorough else 'light')
    if not thorough:        # quick: length 3 over the first six letters
        al = al[:6]
    for seq in sequences(al, (3,)):
        add(seq, 'pairs' if thorough else 'light')
    for seq in sequences(identity_alphabet(T), (2, 3)):
        add(seq, 'light' if thorough else 'min')
    for seq in sequences(tiny_alphabet(T), (1, 2, 3)):
        add(seq, 'core')
    for seq in sequences(mixed_alphabet(T, thorough), (1, 2, 3)):
        add(seq, 'core')
    return plan


def w_write(ctx, task):
    T, enc, seqs = task
    import collections
    stats = collections.Counter()
    for letters in seqs:
        write_exec(ctx, T, enc, letters, ctx.seed, stats)
    ctx.count(len(seqs))
    ctx.note_distinct(len(seqs))
    for k, v in stats.items():
        ctx.cls(k, v)
    ctx.cls('write stream%s' % (', encrypted' if enc else ''), len(seqs))
    ctx.extra['write_streams'] = ctx.extra.get('write_streams', 0) + len(seqs)


def w_read(ctx, task):
    T, enc, items = task
    with _Rebound():
        for letters, mode in items:
            read_stream(ctx, T, enc, letters, mode, ctx.seed)


def _weight(letters, mode):
    n = sum(body_len(l[0], l[1]) + 3 for l in letters)
    if mode == 'core':
        return 40 + min(n, 80) ** 2 // 2
    if mode == 'min':
        return 6
    return 20 + min(n, 300) + n // 64


def chunked(items, weight, budget):
    out, cur, w = [], [], 0
    for it in items:
        cur.append(it)
        w += weight(it)
        if w >= budget:
            out.append(cur)
            cur, w = [], 0
    if cur:
        out.append(cur)
    return out


# -- part D: two connections in one process -------------------------------------
# "However the byte stream is split across socket reads": also when, between
# two reads of one connection's frame, ANOTHER connection of the same process
# reads a frame of its own.  Real Connection objects with their networking
# threads on the virtual network (canonical schedule); connection 1's first
# frame arrives cut at every position, connection 2 receives a frame in the
# gap.  What each connection delivers must be exactly what its server sent.

def two_body(W, cut, other, comp, lens):
    from vf import protoids
    from minecraft.networking.packets import Packet
    T = 64 if comp else None
    login = [('compress', 64), ('success',)] if comp else [('success',)]
    W.serve(host='srv', login=login)
    W.serve(host='srv2', login=login)
    errs = []
    logs = ([], [])

    def describe(p):
        return (type(p).__name__, p.id, getattr(p, 'keep_alive_id', None))
    conns = []
    for i, host in enumerate(('srv', 'srv2')):
        c = W.connection(host=host, allowed_versions={V},
                         handle_exception=lambda e, info, i=i: errs.append(
                             (i, type(e).__name__, str(e)[:80])))
        c.register_packet_listener(
            lambda p, i=i: logs[i].append(describe(p)), Packet)
        conns.append(c)
    conns[0].connect()
    W.settle()
    conns[1].connect()
    W.settle()
    s1, s2 = W.servers[0], W.servers[1]
    for lg in logs:
        del lg[:]
    ka = protoids.ids('play.keep_alive', V)
    A = framing.frame(0x7D, bytes((i * 7 + 1) & 0xFF for i in range(lens[0])),
                      T)
    B = framing.frame(ka, codec.sint(4242, 8), T)
    X = {'keepalive': framing.frame(ka, codec.sint(777, 8), T),
         'unknown': framing.frame(0x7E, b'\x55' * lens[1], T),
         'two': framing.frame(0x7E, b'\x55' * lens[1], T)
         + framing.frame(ka, codec.sint(777, 8), T)}[other]
    cut = min(cut, len(A) - 1)
    s1.play(('rawbytes', A[:cut]))
    W.settle()
    s2.play(('rawbytes', X))
    W.settle()
    s1.play(('rawbytes', A[cut:] + B))
    W.settle()
    want1 = [('Packet', 0x7D, None), ('KeepAlivePacket', ka, 4242)]
    want2 = {'keepalive': [('KeepAlivePacket', ka, 777)],
             'unknown': [('Packet', 0x7E, None)],
             'two': [('Packet', 0x7E, None),
                     ('KeepAlivePacket', ka, 777)]}[other]
    out = {'log1': logs[0], 'want1': want1, 'log2': logs[1], 'want2': want2,
           'errs': list(errs), 'rx1': list(s1.play_rx), 'rx2': list(s2.play_rx),
           'srv_errors': s1.errors[:2] + s2.errors[:2], 'cut': cut,
           'lenA': len(A)}
    for c in conns:
        c.disconnect()
    W.settle()
    return out


TWO_LENS = ((40, 9), (200, 70))


def w_two(ctx, task):
    from vf import harness
    comp, other, lens, cuts = task
    # (the compressed frame may be shorter; two_body clamps the cut)
    for cut in cuts:
        x = harness.run(lambda W: two_body(W, cut, other, comp, lens),
                        horizon=60000)
        ctx.count()
        case = {'part': 'two', 'comp': comp, 'other': other, 'cut': cut,
                'lens': list(lens)}
        if x.failure is not None:
            ctx.violation('two-connections %s comp=%d failure' % (other, comp),
                          '%s: %s' % x.failure, case)
            continue
        r = x.result
        if cut > r['cut']:
            continue                    # same as the clamped cut
        ctx.note_distinct(1)
        ctx.cls('two connections: frame of one cut, frame of the other in '
                'the gap')
        bad = []
        if [tuple(e) for e in r['log1']] != r['want1']:
            bad.append('connection 1 delivered %r, its server sent %r'
                       % (r['log1'], r['want1']))
        if [tuple(e) for e in r['log2']] != r['want2']:
            bad.append('connection 2 delivered %r, its server sent %r'
                       % (r['log2'], r['want2']))
        if r['errs'] or r['srv_errors']:
            bad.append('errors %r %r' % (r['errs'], r['srv_errors']))
        if ('keepalive', 4242) not in [tuple(e) for e in r['rx1']] or \
                [tuple(e) for e in r['rx1']
                 if e[0] == 'keepalive'] != [('keepalive', 4242)]:
            bad.append('server 1 received the keep-alive answers %r, '
                       'expected [4242]' % (r['rx1'],))
        exp2 = [('keepalive', 777)] if other != 'unknown' else []
        if [tuple(e) for e in r['rx2'] if e[0] == 'keepalive'] != exp2:
            bad.append('server 2 received the keep-alive answers %r, '
                       'expected %r' % (r['rx2'], exp2))
        if bad:
            ctx.violation(
                'two-connections %s comp=%d' % (other, comp),
                'two connections in one process, %s: connection 1\'s first '
                'frame (%d bytes) arrives cut after %d bytes, connection 2 '
                'receives %s in the gap: %s'
                % ('compression 64' if comp else 'no compression',
                   r['lenA'], r['cut'], other, '; '.join(bad)), case)


def run(ctx):
    _run(ctx)
    if not ctx.violations:
        tasks = []
        for comp in (False, True):
            for other in ('keepalive', 'unknown', 'two'):
                for lens in (TWO_LENS if ctx.thorough else TWO_LENS[:1]):
                    n = len(framing.frame(0x7D, bytes(lens[0]),
                                          64 if comp else None)) + 8
                    for lo in range(1, n, 4):
                        tasks.append((comp, other, lens,
                                      list(range(lo, min(lo + 4, n)))))
        ctx.pmap(w_two, tasks)
        ctx.extra['two_connection_cases'] = len(tasks)


def _run(ctx):
    M()
    seed = ctx.seed
    rnd = random.Random('c01-order-%d' % seed)
    tasks_w, tasks_r = [], []
    n_w = n_r = 0
    for T in thresholds(seed):
        singles = write_singles(T, seed, ctx.thorough)
        seqs = singles + list(sequences(write_alphabet(T), (2, 3)))
        plan = sorted(read_plan(T, seed, ctx.thorough).items())
        for enc in (False, True):
            for ch in chunked(seqs, lambda s: 1 + sum(
                    body_len(l[0], l[1]) for l in s) // 256, 400):
                tasks_w.append((T, enc, ch))
            n_w += len(seqs)
            for ch in chunked(plan, lambda it: _weight(*it), 6000):
                tasks_r.append((T, enc, ch))
            n_r += len(plan)
    rnd.shuffle(tasks_w)
    rnd.shuffle(tasks_r)
    ctx.pmap(w_write, tasks_w)
    ctx.pmap(w_read, tasks_r)
    ctx.extra['thresholds'] = [str(t) for t in thresholds(seed)]
    ctx.extra['read_stream_bytes_max'] = 16384 + 3
    ctx.extra['planned_write_streams'] = n_w
    ctx.extra['planned_read_streams'] = n_r
    ctx.sample({'side': 'write', 'threshold': 64, 'encrypted': True,
                'letters': ['spm/%d/c' % edge('spm', 64)[-1], 'ka/1/z',
                            'g3/0/c'],
                'oracle': 'CFB8-decrypt, deframe each written slice: exactly '
                          'one frame (id, payload) per packet, nothing left'})
    # vacuity guards: the interesting classes must really have been hit
    need = ['write: frame compressed', 'write: frame data-length 0',
            'write: frame without data-length', 'write: frame length 127',
            'write: frame length 128', 'write: frame length 16383',
            'write: frame length 16384', 'read frame: compressed',
            'read frame: compressed below threshold',
            'read frame: uncompressed at/above threshold',
            'read frame: zlib level 0', 'read frame: padded length prefix',
            'read frame: unknown id', 'read frame: frame-like payload',
            'read frame: frame length 127', 'read frame: frame length 128',
            'read frame: frame length 16383', 'read frame: frame length 16384',
            'read segmentation: all compositions',
            'read segmentation: 2-cut (all)', 'read segmentation: 1-cut']
    if not ctx.violations:
        missing = [k for k in need if not ctx.classes.get(k)]
        if missing:
            raise ToolError('vacuous: classes never hit: %s' % missing)


def replay(ctx, case):
    if case.get('part') == 'two':
        sub = ctx.fork()
        w_two(sub, (case['comp'], case['other'], tuple(case['lens']),
                    [case['cut']]))
        for key, rec in sub.violations.items():
            ctx.violation(key, rec['what'], rec['case'])
        ctx.count()
        return
    M()
    T = case['T']
    seed = case['seed']
    ctx.count()
    if case['side'] == 'write':
        write_exec(ctx, T, bool(case['enc']),
                   [tuple(l) for l in case['letters']], seed)
        return
    letters = [tuple(l) for l in case['letters']]
    with _Rebound():
        st = Stream(T, bool(case['enc']), letters, seed)
        cuts = tuple(case['cuts'])
        what = st.run(cuts, case.get('reactor', 'Mini'))
    if what:
        ctx.violation(
            '%s %s' % (st.key(), seg_name(cuts, st.L)),
            'stream of %d frame(s) %s (threshold %r, encryption %s, %d '
            'bytes: %s) delivered as %s: %s'
            % (len(letters), [lstr(l) for l in letters], T, case['enc'],
               st.L, _hx(st.plain), seg_name(cuts, st.L), what), case)
