"""C07 - core packets match the published protocol for every supported release.

pyCraft's own tests talk only to pyCraft's own fake server, so a consistent
error (shifted version boundary, swapped fields, wrong id) is invisible to
them.  Here every core packet of every release is judged against
vf.refproto.releases: an id table, a layout table and an encoder transcribed
from the protocol documentation, sharing no code with pyCraft.
"""
import io
import itertools
import random

from vf.runner import use_repo, ToolError, jsonable
from vf.refproto import codec as ref
from vf.refproto import framing
from vf.refproto import releases as rel

LEVEL = 'exploration'
RULE = ('Every release protocol of the README (30) x every core packet that '
        'exists in that release (handshake; status request/response/ping/'
        'pong; login start/success/disconnect/set-compression/encryption '
        'request+response, login plugin request/response from 1.13; keep-'
        'alive x2, join game, chat x2, player position and look x2, teleport '
        'confirm from 1.9, play disconnect, play set-compression in 1.8) x '
        'value vectors.  Vectors: per field a boundary alphabet by wire type '
        'and meaning; the full product when it has <= 400 (thorough: 4000) '
        'members, otherwise '
        'every alphabet member of every field with the other fields at '
        'pairwise-different base values, plus the diagonals; plus, for the '
        'string of status response, login disconnect, play disconnect and '
        'clientbound chat, one vector per LONG string (other fields at base '
        'values): multi-byte characters whose UTF-8 length lies at and '
        'across 32767 bytes (32767, 32768 and 32769 bytes of 3-byte '
        'characters, 32768 bytes of 2-byte characters, a JSON text of '
        '32771 bytes, 32767 three-byte characters = 98301 bytes; thorough '
        'adds 32766 bytes, 4-byte characters, 2-byte x32767, ASCII x32767 '
        'and a 1/2/3-byte mix) while the '
        'character count stays <= 32767, the documented limit of those '
        'fields in every release; both directions: decoding the reference '
        'bytes and comparing the written bytes with them.  Serverbound '
        'chat goes up to its documented 100 (before 1.11) / 256 characters '
        'of 3-byte characters and no further.  '
        'Each vector is '
        'executed three ways on the real classes: (a) Packet.write bytes == '
        'reference frame bytes, (b) Packet.read of the reference payload '
        'gives the same values and consumes exactly, and once per (release, '
        'packet): (c) the id->class dict of the real reactor selects the '
        'class (clientbound) / get_id gives the table id (serverbound).  '
        'Additionally, for each \'absent\' table entry (play Set '
        'Compression from 1.9 on, Teleport Confirm in 1.8, login plugin '
        'request/response before 1.13): (d) the mapped class is in no '
        'entry of the reactor\'s id->class dict (clientbound) / not in '
        'the serverbound get_packets set of that state.  '
        '(e) Echo, per release x boundary id: the reference bytes of a '
        'clientbound keep-alive are decoded by pyCraft, keep_alive_id is '
        'copied into a new serverbound KeepAlivePacket the way '
        'PlayingReactor.react does, the context is set the way '
        'Connection.write_packet does, and Packet.write must give the '
        'reference serverbound keep-alive frame of the same wire pattern; '
        'ids are wire patterns: for VarInt releases (47-338) the VarInt '
        'alphabet as unsigned 32-bit patterns plus 0x7FFFFFFF, 0x80000000, '
        '0x80000001, 0xFFFFFF7F, 0xFFFFFFFF, 0xDEADBEEF; for Long releases '
        'the Long alphabet plus 2^63-1, 2^63-2, -2^63, -2^63+1, -1, '
        '0x80000000, 0xFFFFFFFF, 0xDEADBEEF, 0xDEADBEEFDEADBEEF; the same '
        'echo for teleport_id of clientbound player-position-and-look -> '
        'serverbound teleport confirm from 1.9 on (VarInt patterns).  How '
        'pyCraft represents the id in between (signed, unsigned) is not '
        'looked at.  '
        'All of (a)-(e) are executed in three context regimes, each judged '
        'against the same reference: FRESH (a new ConnectionContext per '
        'case); RE-ASSIGNED (one ConnectionContext object whose '
        'protocol_version is assigned in place, as Connection.connect '
        'does, walking the releases oldest -> newest -> oldest, 59 visits, '
        'so that every release is entered from its older and from its '
        'newer neighbour); LONG-LIVED (30 contexts, one per release, all '
        'created up front, used alternately in the order 47, 757, 107, '
        '756, ... 60 visits).  The last two regimes are walked by 16 '
        'independent walks each (own context objects); walk k re-judges '
        'on every visit of a release the vectors k, k+16, k+32, ... of '
        'every packet of that release, so the union over the walks is '
        'every vector; walk 0 also carries (c), (d) and (e).  A violation '
        'seen in a walk is reported under its own key unless the same '
        'case already fails with a fresh context.  '
        'Vectors are de-duplicated, so all cases are distinct by '
        'construction ((regime, release, packet, vector); repeated visits '
        'of a walk are counted as evaluations only); a case is '
        'non-trivial when the packet has a field.  '
        'The seed adds members to the alphabets and permutes order.')
ASSUMPTIONS = [
    'the table in vf/refproto/releases.py is a from-memory transcription of '
    'the published protocol documentation (no network access here); it is '
    'the trusted base of this check and has hand-assembled self-test vectors',
    'VarInt fields are compared modulo 2^32 (pyCraft represents a negative '
    'VarInt as its unsigned wrap; that is C02/C03 territory, not layout)',
    'Join Game "previous gamemode" is compared modulo 256 (signedness of '
    'that byte is not judged)',
    'third-party pynbt is trusted to implement NBT; what is judged is how '
    'pyCraft frames NBT inside Join Game (named root, position in packet)',
    'the documented string limits count characters (Chat / status JSON / '
    'disconnect reason: 32767 before 1.13, more later; serverbound chat 100, '
    'from 1.11 256), the length prefix counts UTF-8 bytes, and a string of n '
    'characters may legally take up to 3n bytes (4n for characters outside '
    'the BMP, used in the thorough tier with n <= 8192 only); the long '
    'strings stay within every one of these',
    'every bit pattern of the wire type is a legal keep-alive id and '
    'teleport id (vanilla servers up to 1.12.1 take the keep-alive id from '
    'the low 32 bits of a clock, so the top bit is set half of the time); '
    'the echo rule compares wire bytes only',
    'a ConnectionContext whose protocol_version is re-assigned in place, '
    'and several contexts alive at once, are supported ways of use '
    '(Connection.connect does the former on every negotiated connection)',
]

# reference name -> (direction, state, pyCraft class, {ref field: attribute})
PY = {
    'sb.handshake': ('serverbound', 'handshake', 'HandShakePacket', {}),
    'sb.status.request': ('serverbound', 'status', 'RequestPacket', {}),
    'sb.status.ping': ('serverbound', 'status', 'PingPacket',
                       {'payload': 'time'}),
    'status.response': ('clientbound', 'status', 'ResponsePacket',
                        {'json': 'json_response'}),
    'status.pong': ('clientbound', 'status', 'PingResponsePacket',
                    {'payload': 'time'}),
    'sb.login.start': ('serverbound', 'login', 'LoginStartPacket', {}),
    'sb.login.encryption_response': ('serverbound', 'login',
                                     'EncryptionResponsePacket', {}),
    'sb.login.plugin_response': ('serverbound', 'login',
                                 'PluginResponsePacket', {}),
    'login.disconnect': ('clientbound', 'login', 'DisconnectPacket',
                         {'reason': 'json_data'}),
    'login.encryption_request': ('clientbound', 'login',
                                 'EncryptionRequestPacket', {}),
    'login.success': ('clientbound', 'login', 'LoginSuccessPacket',
                      {'uuid': 'UUID', 'username': 'Username'}),
    'login.set_compression': ('clientbound', 'login', 'SetCompressionPacket',
                              {}),
    'login.plugin_request': ('clientbound', 'login', 'PluginRequestPacket',
                             {}),
    'play.keep_alive': ('clientbound', 'play', 'KeepAlivePacket', {}),
    'play.join_game': ('clientbound', 'play', 'JoinGamePacket', {
        'gamemode': 'game_mode', 'previous_gamemode': 'previous_game_mode',
        'view_distance': 'render_distance',
        'enable_respawn_screen': 'respawn_screen'}),
    'play.chat': ('clientbound', 'play', 'ChatMessagePacket',
                  {'json': 'json_data'}),
    'play.position_and_look': ('clientbound', 'play',
                               'PlayerPositionAndLookPacket', {}),
    'play.disconnect': ('clientbound', 'play', 'DisconnectPacket',
                        {'reason': 'json_data'}),
    'play.set_compression': ('clientbound', 'play', 'SetCompressionPacket',
                             {}),
    'sb.play.keep_alive': ('serverbound', 'play', 'KeepAlivePacket', {}),
    'sb.play.chat': ('serverbound', 'play', 'ChatPacket', {}),
    'sb.play.position_and_look': ('serverbound', 'play',
                                  'PositionAndLookPacket', {}),
    'sb.play.teleport_confirm': ('serverbound', 'play',
                                 'TeleportConfirmPacket', {}),
}

MOD256 = {('play.join_game', 'previous_gamemode')}

U1 = '01234567-89ab-cdef-0123-456789abcdef'
UUIDS = ['00000000-0000-0000-0000-000000000000',
         'ffffffff-ffff-ffff-ffff-ffffffffffff', U1,
         '069a79f4-44e9-4726-a5be-fca90e38aaf5',
         '80000000-0000-4000-8000-00000000007f']

NBT_EMPTY = ('compound', [])
NBT_ONE = ('compound', [('a', ('int', 5))])
NBT_DEEP = ('compound', [
    ('minecraft:dimension_type', ('compound', [
        ('type', ('string', 'minecraft:dimension_type')),
        ('value', ('list', 'compound', [
            [('name', ('string', 'minecraft:overworld')), ('id', ('int', 0)),
             ('element', ('compound', [
                 ('piglin_safe', ('byte', 0)), ('natural', ('byte', 1)),
                 ('ambient_light', ('float', 0.0)),
                 ('infiniburn', ('string', 'minecraft:infiniburn_overworld')),
                 ('logical_height', ('int', 256)),
                 ('coordinate_scale', ('double', 1.0)),
                 ('fixed_time', ('long', 6000)),
                 ('min_y', ('short', -64))]))],
            []]))])),
    ('hé', ('list', 'int', [1, -1, 2147483647])),
    ('names', ('list', 'string', ['x', '', 'hé€'])),
])
NBT_DIM = ('compound', [
    ('piglin_safe', ('byte', 0)), ('natural', ('byte', 1)),
    ('ambient_light', ('float', 0.5)),
    ('infiniburn', ('string', 'minecraft:infiniburn_overworld')),
    ('logical_height', ('int', 256)), ('coordinate_scale', ('double', 8.0)),
    ('effects', ('string', 'minecraft:overworld'))])

JSONS = ['', '{"text":""}', '{"text":"hi"}',
         '{"translate":"chat.type.text","with":["hé","€ \U0001f600"]}',
         '"plain"', 'é' * 64, 'x' * 127, 'x' * 128]
# strings of at most 32767 characters (the documented limit of Chat, status
# JSON and disconnect reason in every release) whose UTF-8 length lies at and
# across 32767 bytes: (label, text)
CJK = '\u4e2d'           # 3 bytes


def long_strings(tier):
    out = [
        ('3-byte x10922 + 1 = 32767 bytes', 'a' + CJK * 10922),
        ('3-byte x10922 + 2 = 32768 bytes', 'ab' + CJK * 10922),
        ('3-byte x10923 = 32769 bytes', CJK * 10923),
        ('2-byte x16384 = 32768 bytes', '\xe9' * 16384),
        ('JSON text of 10920 3-byte characters = 32771 bytes',
         '{"text":"' + CJK * 10920 + '"}'),
        ('3-byte x32767 = 98301 bytes', '\u20ac' * 32767),
    ]
    if tier == 'thorough':
        out += [
            ('3-byte x10922 = 32766 bytes', CJK * 10922),
            ('2-byte x16383 + 1 = 32767 bytes', '\xe9' * 16383 + 'a'),
            ('2-byte x16383 = 32766 bytes', '\xe9' * 16383),
            ('4-byte x8192 = 32768 bytes', '\U0001f600' * 8192),
            ('2-byte x32767 = 65534 bytes', '\xe9' * 32767),
            ('ASCII x32767 = 32767 bytes', 'x' * 32767),
            ('mixed 1/2/3-byte x5462 = 32772 bytes', 'a\xe9\u20ac' * 5462),
        ]
    for label, text in out:
        if len(text) > 32767 or len(ref.utf8(text)) != int(
                label.split(' = ')[1].split()[0]):
            raise ToolError('long string %r mislabelled' % label)
    return out


LONG_STRING_FIELDS = (('status.response', 'json'),
                      ('login.disconnect', 'reason'),
                      ('play.disconnect', 'reason'), ('play.chat', 'json'))

WORLDS = ['minecraft:overworld', 'minecraft:the_nether', 'minecraft:the_end',
          'x:y', '', 'custom:hé']


def build_alphabets(tier, seed):
    """(by wire type, by (packet, field)) alphabets.  Everything here is a
    fixed list; the seed appends members drawn in a fixed order."""
    T = tier == 'thorough'
    rng = random.Random(seed)
    by_type = {
        'varint': [0, 1, 2, 127, 128, 255, 16383, 16384, 2097151, 2097152,
                   268435455, 268435456, 2147483647],
        'long': [0, 1, -1, 127, 128, 255, 256, 2147483647, 2147483648,
                 -2147483648, -2147483649, (1 << 63) - 1, -(1 << 63),
                 0x0102030405060708, -0x0102030405060708],
        'int': [0, 1, -1, 127, 128, 255, 256, 65535, 65536, 2147483647,
                -2147483648, 0x01020304],
        'ubyte': [0, 1, 2, 3, 127, 128, 255],
        'byte': [-128, -1, 0, 1, 127],
        'ushort': [0, 1, 255, 256, 25565, 32767, 32768, 65535],
        'double': [0.0, -0.0, 1.0, -1.0, 0.5, 1.5, -1.5, 64.0, 255.5,
                   -30000000.0, 30000000.0, 0.1, -0.1, 1e-300,
                   1.7976931348623157e308, 5e-324, 123456.789],
        'float': [0.0, -0.0, 90.0, -90.0, 0.5, -0.5, 180.0, -180.0, 359.75,
                  45.25, 3.4028234663852886e38, 1.401298464324817e-45, 1.0,
                  -1.0, 16777216.0],
        'bool': [False, True],
        'string': ['', 'a', 'localhost', 'hé', '€', '\U0001f600x',
                   'x' * 127, 'x' * 128, 'é' * 64],
        'uuid': list(UUIDS),
        'bytes': [b'', b'\x00', b'\x01\x02\x03\x04', bytes(127),
                  bytes(range(128)), b'\xff' * 162, bytes(range(256))],
        'rest': [b'', b'\x00', b'\x01\x02', b'\xff' * 300],
        'strings': [[], ['minecraft:overworld'],
                    ['minecraft:overworld', 'minecraft:the_nether',
                     'minecraft:the_end'],
                    ['hé', '', 'x' * 128]],
        'nbt': [NBT_EMPTY, NBT_ONE, NBT_DEEP, NBT_DIM],
    }
    if T:
        by_type['varint'] += [3, 126, 129, 16382, 16385, 2097150, 2097153,
                              268435454, 268435457, 2147483646, 0x01020304]
        by_type['long'] += [2, -2, (1 << 32), -(1 << 32), (1 << 56) - 1,
                            -(1 << 56), (1 << 63) - 2, -(1 << 63) + 1]
        by_type['int'] += [2, -2, 32767, 32768, -32768, -32769, 2147483646,
                           -2147483647]
        by_type['ubyte'] += [4, 8, 15, 16, 64, 254]
        by_type['byte'] += [-127, -2, 2, 63, 64, 126]
        by_type['ushort'] += [2, 127, 128, 1024, 25564, 25566, 65534]
        by_type['double'] += [2.0, -2.0, 1e300, -1e300, 2.5e-308, 1.0 / 3,
                              -1.7976931348623157e308, 4503599627370496.5,
                              1024.0009765625]
        by_type['float'] += [2.0, -2.0, 360.0, -360.0, 0.25, 1.5, -1.5,
                             -3.4028234663852886e38, 1.1754943508222875e-38,
                             0.0009765625]
        by_type['string'] += [' ', 'ab' * 129, 'x' * 16383, 'x' * 16384,
                              'é' * 8192, '中文',
                              'a\x00b', '￿', '\U0010ffff']
        by_type['bytes'] += [bytes(128), bytes(16383), bytes(16384),
                             b'\x80' * 294]
        by_type['rest'] += [bytes(range(256)) * 4, b'\x0a\x00\x00\x00']
        by_type['strings'] += [['a'] * 128, ['€'] * 3]
    # seed-derived members (added, never replacing)
    n_extra = 2 if not T else 4
    for _ in range(n_extra):
        by_type['varint'].append(rng.randrange(1 << 31))
        by_type['long'].append(rng.randrange(-(1 << 63), 1 << 63))
        by_type['int'].append(rng.randrange(-(1 << 31), 1 << 31))
        by_type['ushort'].append(rng.randrange(1 << 16))
        by_type['double'].append(
            ref.bits_f64(rng.randrange(0x7ff0000000000000) |
                         (rng.randrange(2) << 63)))
        by_type['float'].append(
            ref.bits_f32(rng.randrange(0x7f800000) |
                         (rng.randrange(2) << 31)))
        by_type['string'].append(''.join(
            rng.choice('ab zé€中\U0001f600"{}:')
            for _ in range(rng.randrange(1, 40))))
        by_type['bytes'].append(bytes(rng.randrange(256)
                                      for _ in range(rng.randrange(1, 200))))
        by_type['rest'].append(bytes(rng.randrange(256)
                                     for _ in range(rng.randrange(1, 200))))
        raw = bytes(rng.randrange(256) for _ in range(16))
        by_type['uuid'].append(ref.uuid_text(raw))
    for x in by_type['float']:
        if ref.f64_bits(ref.bits_f32(ref.f32_bits(x))) != ref.f64_bits(x):
            raise ToolError('float alphabet member %r is not f32-exact' % x)
    neg = [-1, -129, -2147483648]
    by_field = {
        ('sb.handshake', 'protocol_version'):
            [47, 0, 4, 107, 127, 128, 340, 757, 0x40000001, 2147483647],
        ('sb.handshake', 'server_address'):
            ['localhost', '', '127.0.0.1', 'mc.example.com', 'hé.example',
             'localhost\x00FML\x00', 'x' * 255, 'é' * 100],
        ('sb.handshake', 'next_state'): [1, 2],
        ('sb.login.start', 'name'):
            ['Notch', '', 'a', 'jeb_', 'x' * 16, 'hé', '€\U0001f600'],
        ('login.success', 'username'):
            ['Notch', '', 'a', 'jeb_', 'x' * 16, 'hé', '€\U0001f600'],
        ('login.encryption_request', 'server_id'):
            ['', '-', 'x' * 20, 'hé', '1a2b3c4d5e6f'],
        ('login.plugin_request', 'channel'):
            ['minecraft:brand', 'fml:loginwrapper', 'a:b', '', 'hé:x'],
        ('play.join_game', 'level_type'):
            ['default', 'flat', 'largeBiomes', 'amplified', 'default_1_1', '',
             'hé'],
        ('play.join_game', 'world_name'): list(WORLDS),
        ('play.join_game', 'difficulty'): [0, 1, 2, 3] + ([255] if T else []),
        ('play.join_game', 'view_distance'): [2, 10, 32, 127, 128, 0] +
            ([2147483647] if T else []),
        ('play.join_game', 'simulation_distance'): [5, 12, 32, 128, 127, 0] +
            ([2147483647] if T else []),
        ('play.chat', 'position'): [0, 1, 2] + ([127, -128, -1] if T else []),
        ('play.position_and_look', 'flags'):
            list(range(32)) if T else [0, 1, 2, 4, 8, 16, 0x1F, 0x15, 0x0A],
    }
    for key in (('play.keep_alive', 'keep_alive_id'),
                ('sb.play.keep_alive', 'keep_alive_id'),
                ('login.set_compression', 'threshold'),
                ('play.set_compression', 'threshold'),
                ('login.plugin_request', 'message_id'),
                ('sb.login.plugin_response', 'message_id')):
        by_field[key] = by_type['varint'] + neg
    for name, field in (('status.response', 'json'),
                        ('login.disconnect', 'reason'),
                        ('play.disconnect', 'reason'), ('play.chat', 'json')):
        by_field[(name, field)] = JSONS + by_type['string'][9:]
    # 'extras': members that are not multiplied with the other fields (one
    # vector each, the other fields at their base values)
    longs = [text for _, text in long_strings(tier)]
    extras = {key: list(longs) for key in LONG_STRING_FIELDS}
    return by_type, by_field, extras


def alphabet(alph, name, field, typ, version):
    by_type, by_field = alph[0], alph[1]
    if name == 'play.join_game':
        if field == 'gamemode':
            # the hardcore flag 0x8 lives in this byte until 1.16.1
            return ([0, 1, 2, 3] if version >= 751 else
                    [0, 1, 2, 3, 8, 9, 10, 11]) + [255]
        if field == 'previous_gamemode':
            return [0, 1, 2, 3, 255] if typ == 'ubyte' else [-1, 0, 1, 2, 3]
        if field == 'dimension':
            if typ == 'byte':
                return [-1, 0, 1, 127, -128]
            if typ == 'int':
                return [-1, 0, 1] + by_type['int'][3:]
            if typ == 'string':
                return WORLDS[:3] + WORLDS[3:]
        if field == 'max_players':
            return ([0, 1, 20, 127, 128, 255] if typ == 'ubyte' else
                    [0, 1, 20, 127, 128, 255, 256, 100000, 2147483647])
    if name == 'login.success' and field == 'uuid' and typ == 'string':
        return by_type['uuid']
    if name == 'sb.play.chat' and field == 'message':
        out = ['', 'hi', '/help', 'hé € \U0001f600', 'x' * 100,
               'é' * 100]
        if version >= 315:      # limit raised from 100 to 256 in 1.11
            out += ['x' * 256, '€' * 256]
        else:
            out += ['€' * 100]
        return out
    if (name, field) in by_field:
        return by_field[(name, field)]
    return by_type[typ]


def vectors(alph, name, version, seed, limit=400):
    """De-duplicated list of value dicts for one (packet, release)."""
    L = rel.layout(name, version)
    if not L:
        return [{}]
    if name == 'sb.login.plugin_response':
        ids_ = alphabet(alph, name, 'message_id', 'varint', version)
        datas = alph[0]['rest']
        out = [{'message_id': i, 'successful': False, 'data': None}
               for i in ids_]
        out += [{'message_id': i, 'successful': True, 'data': d}
                for i in ids_ for d in datas]
        return out
    A = [alphabet(alph, name, f, t, version) for f, t in L]
    fields = [f for f, _ in L]
    size = 1
    for a in A:
        size *= len(a)
    raw = []
    base = [a[(2 * i + 3) % len(a)] for i, a in enumerate(A)]
    if size <= limit:
        raw = [list(c) for c in itertools.product(*A)]
    else:
        for i, a in enumerate(A):
            for x in a:
                v = list(base)
                v[i] = x
                raw.append(v)
        for k in range(max(len(a) for a in A)):
            raw.append([a[(k + i) % len(a)] for i, a in enumerate(A)])
            raw.append([a[(k * (i + 1)) % len(a)] for i, a in enumerate(A)])
    for i, f in enumerate(fields):
        for x in alph[2].get((name, f), ()):
            v = list(base)
            v[i] = x
            raw.append(v)
    seen, out = set(), []
    for v in raw:
        key = repr(v)
        if key not in seen:
            seen.add(key)
            out.append(dict(zip(fields, v)))
    random.Random(seed * 7919 + version).shuffle(out)
    return out


# -- pyCraft side ----------------------------------------------------------------

class _Conn(object):
    def __init__(self, context):
        self.context = context


def py_class(name):
    from minecraft.networking.packets import clientbound, serverbound
    direction, state, cls, _ = PY[name]
    pkg = clientbound if direction == 'clientbound' else serverbound
    return getattr(getattr(pkg, state), cls)


def py_context(version):
    from minecraft.networking.connection import ConnectionContext
    return ConnectionContext(protocol_version=version)


def to_pynbt(v, name=None):
    import pynbt
    scal = {'byte': pynbt.TAG_Byte, 'short': pynbt.TAG_Short,
            'int': pynbt.TAG_Int, 'long': pynbt.TAG_Long,
            'float': pynbt.TAG_Float, 'double': pynbt.TAG_Double,
            'string': pynbt.TAG_String}
    kind = v[0]
    if kind in scal:
        return scal[kind](v[1], name)
    if kind == 'compound':
        t = pynbt.TAG_Compound(name=name)
        for n, x in v[1]:
            t[n] = to_pynbt(x, n)
        return t
    if kind == 'list':
        ekind = v[1]
        if ekind == 'compound':
            items = [to_pynbt(('compound', it)) for it in v[2]]
            return pynbt.TAG_List(pynbt.TAG_Compound, items, name)
        return pynbt.TAG_List(scal[ekind], [scal[ekind](p) for p in v[2]],
                              name)
    raise ToolError('nbt kind %r' % (kind,))


def from_pynbt(t):
    """pynbt object -> canonical nested tuples (None if not expressible)."""
    import pynbt
    scal = {pynbt.TAG_Byte: 'byte', pynbt.TAG_Short: 'short',
            pynbt.TAG_Int: 'int', pynbt.TAG_Long: 'long',
            pynbt.TAG_Float: 'float', pynbt.TAG_Double: 'double',
            pynbt.TAG_String: 'string'}
    for c, kind in scal.items():
        if type(t) is c:
            return (kind, t.value)
    if isinstance(t, pynbt.TAG_Compound):
        return ('compound', tuple((n, from_pynbt(x)) for n, x in t.items()))
    if isinstance(t, pynbt.TAG_List):
        if t.type_ is pynbt.TAG_Compound:
            return ('list', 'compound', tuple(
                tuple((n, from_pynbt(x)) for n, x in it.items())
                for it in t))
        if t.type_ in scal:
            return ('list', scal[t.type_], tuple(x.value for x in t))
    return ('?', repr(t))


def to_py(name, field, typ, v):
    if typ == 'varint':
        return v % (1 << 32)
    if (name, field) in MOD256:
        return v % 256
    if typ == 'nbt':
        return to_pynbt(v)
    if typ == 'strings':
        return list(v)
    return v


def same(name, field, typ, got, exp):
    if typ == 'varint':
        return isinstance(got, int) and got % (1 << 32) == exp % (1 << 32)
    if (name, field) in MOD256:
        return isinstance(got, int) and got % 256 == exp % 256
    if typ == 'float':
        # alphabet members are f32-exact, so the decoded double is exp itself
        return isinstance(got, float) and \
            ref.f64_bits(got) == ref.f64_bits(exp)
    if typ == 'double':
        return isinstance(got, float) and \
            ref.f64_bits(got) == ref.f64_bits(exp)
    if typ == 'nbt':
        return canon_f(from_pynbt(got)) == canon_f(rel.nbt_canon(exp))
    if typ in ('bytes', 'rest'):
        if exp is None:
            return got is None
        return isinstance(got, (bytes, bytearray)) and bytes(got) == exp
    if typ == 'strings':
        return isinstance(got, (list, tuple)) and list(got) == list(exp)
    if typ == 'bool':
        return isinstance(got, (bool, int)) and bool(got) == exp and \
            got in (0, 1)
    if typ in ('string', 'uuid'):
        return isinstance(got, str) and got == exp
    return isinstance(got, int) and not isinstance(got, bool) and got == exp


def canon_f(v):
    """floats inside canonical NBT -> bit patterns (so -0.0 != 0.0)."""
    if isinstance(v, tuple):
        if len(v) == 2 and v[0] == 'float':
            return ('float', ref.f32_bits(v[1]))
        if len(v) == 2 and v[0] == 'double':
            return ('double', ref.f64_bits(v[1]))
        return tuple(canon_f(x) for x in v)
    return v


def short(b, n=64):
    h = bytes(b).hex()
    return h if len(h) <= 2 * n else '%s...(%d bytes)' % (h[:2 * n], len(b))


def brief(v):
    """repr with long strings / byte strings cut (length facts kept)."""
    if isinstance(v, str) and len(v) > 80:
        return '%s...(%d characters, %d UTF-8 bytes)' % (
            repr(v[:24])[:-1], len(v), u8len(v))
    if isinstance(v, (bytes, bytearray)) and len(v) > 80:
        return 'bytes %s' % short(v, 24)
    if isinstance(v, dict):
        return '{%s}' % ', '.join('%r: %s' % (k, brief(x))
                                  for k, x in v.items())
    if isinstance(v, (list, tuple)) and any(
            isinstance(x, (str, bytes, bytearray)) and len(x) > 80
            for x in v):
        return '[%s]' % ', '.join(brief(x) for x in v)
    return repr(v)


def show(values):
    s = brief(values)
    return s if len(s) <= 400 else s[:400] + '...'


def attr_of(name, field):
    return PY[name][3].get(field, field)


# -- context regimes -------------------------------------------------------------
# Every judgement below takes a Regime: how the ConnectionContext of the case
# is obtained.  mode -> (suffix of violation keys, words for the explanation)
MODES = {
    'fresh': ('', ''),
    'moving': (' ctx=re-assigned',
               'the ConnectionContext is ONE object whose protocol_version '
               'was re-assigned in place on the way here, as '
               'Connection.connect does'),
    'live': (' ctx=long-lived',
             'the ConnectionContext is a long-lived one of this release, '
             'created before the contexts of the other releases were used'),
}
WALKS = 16      # independent walks per non-fresh regime (vector slices)


class Regime(object):
    def __init__(self, mode='fresh', context=None, hist=None, prev=None):
        self.mode, self.context, self.hist, self.prev = \
            mode, context, hist, prev

    def ctx_for(self, version):
        if self.context is None:
            return py_context(version)
        if self.context.protocol_version != version:
            raise ToolError('regime context is at %r, case is for %d'
                            % (self.context.protocol_version, version))
        return self.context

    def key(self, k):
        return k + MODES[self.mode][0]

    def what(self, w):
        if self.mode == 'fresh':
            return w
        return '%s\n[%s; release used before this one: %s.  With a fresh ' \
            'context the same case is judged separately.]' % (
                w, MODES[self.mode][1], self.prev)

    def case(self, c):
        return dict(c, history=self.hist) if self.hist else c


FRESH = Regime()


def check_ids(ctx, version, name, rg=FRESH):
    """(c): the lookup the reactor really does / the id a writer will use."""
    from minecraft.networking import connection as C
    direction, state, clsname, _ = PY[name]
    want = rel.ids(version)[name]
    case = rg.case({'version': version, 'name': name, 'kind': 'lookup',
                    'values': None})
    ctx.count()
    try:
        cls = py_class(name)
        context = rg.ctx_for(version)
        if direction == 'clientbound':
            R = {'status': C.StatusReactor, 'login': C.LoginReactor,
                 'play': C.PlayingReactor}[state]
            table = R(_Conn(context)).clientbound_packets
            got = table.get(want)
            if got is not cls:
                has = sorted(i for i, c in table.items() if c is cls)
                ctx.violation(
                    rg.key('lookup v=%d %s' % (version, name)), rg.what(
                        'protocol %d: the documented id of %s (%s) is 0x%02X; '
                        '%s(...).clientbound_packets[0x%02X] is %s, and %s is '
                        'registered under %s' % (
                            version, name, clsname, want, R.__name__, want,
                            getattr(got, '__name__', got), clsname,
                            ['0x%02X' % i for i in has] or 'no id')), case)
                ctx.outcome('lookup WRONG')
                return False
            # ... and selects it whatever order the set of registered
            # classes is iterated in: no other registered class may claim
            # the documented id (which of two claimants ends up in the dict
            # depends on memory addresses, i.e. on the process)
            claim = sorted(
                c.__name__ for c in R.get_clientbound_packets(context)
                if c is not cls and c.get_id(context) == want)
            if claim:
                ctx.violation(
                    rg.key('lookup-ambiguous v=%d %s' % (version, name)),
                    rg.what('protocol %d: the documented id 0x%02X of %s '
                            '(%s) is also claimed by %s; which class decodes '
                            'it depends on set iteration order'
                            % (version, want, name, clsname,
                               ', '.join(claim))), case)
                ctx.outcome('lookup AMBIGUOUS')
                return False
            ctx.outcome('reactor lookup selects class')
        else:
            got = cls.get_id(context)
            if got != want or isinstance(got, bool):
                ctx.violation(
                    rg.key('id v=%d %s' % (version, name)), rg.what(
                        'protocol %d: the documented id of %s (%s) is 0x%02X; '
                        'get_id gives %r' % (version, name, clsname, want,
                                             got)),
                    dict(case, kind='id'))
                ctx.outcome('id WRONG')
                return False
            ctx.outcome('serverbound get_id == table')
    except ToolError:
        raise
    except Exception as e:
        ctx.violation(rg.key('lookup-raises v=%d %s' % (version, name)),
                      rg.what('protocol %d %s: building the id table raised '
                              '%r' % (version, name, e)), case)
        ctx.outcome('lookup RAISED')
        return False
    return True


def check_absent(ctx, version, name, rg=FRESH):
    """(d): a packet documented not to exist in this release must not be in
    the table of its state: a clientbound class registered under any id would
    decode some other packet's frames as this one."""
    from minecraft.networking import connection as C
    from minecraft.networking.packets import clientbound, serverbound
    direction, state, clsname, _ = PY[name]
    case = rg.case({'version': version, 'name': name, 'kind': 'absent',
                    'values': None})
    ctx.count()
    try:
        cls = py_class(name)
        context = rg.ctx_for(version)
        if direction == 'clientbound':
            R = {'status': C.StatusReactor, 'login': C.LoginReactor,
                 'play': C.PlayingReactor}[state]
            table = R(_Conn(context)).clientbound_packets
            at = sorted(i for i, c in table.items() if c is cls)
            listed = cls in getattr(clientbound, state).get_packets(context)
            if at or listed:
                ctx.outcome('absent packet PRESENT')
                ctx.violation(
                    rg.key('present v=%d %s' % (version, name)), rg.what(
                        'protocol %d: %s does not exist in this release, but '
                        '%s registers %s under %s, so a frame with that id - '
                        'another packet in this release - is decoded as %s'
                        % (version, name, R.__name__, clsname,
                           ['0x%02X' % i for i in at] or 'get_packets',
                           name)), case)
                return False
        else:
            if cls in getattr(serverbound, state).get_packets(context):
                ctx.outcome('absent packet PRESENT')
                ctx.violation(
                    rg.key('present v=%d %s' % (version, name)), rg.what(
                        'protocol %d: %s does not exist in this release, but '
                        '%s is in serverbound.%s.get_packets'
                        % (version, name, clsname, state)), case)
                return False
        ctx.outcome('absent packet not registered')
    except ToolError:
        raise
    except Exception as e:
        ctx.outcome('absent check RAISED')
        ctx.violation(rg.key('absent-raises v=%d %s' % (version, name)),
                      rg.what('protocol %d %s: building the table raised %r'
                              % (version, name, e)), case)
        return False
    return True


_REUSED = {}


def check_case(ctx, version, name, values, rg=FRESH, payload=None):
    """(a) and (b) for one value vector.  True when both agree."""
    from minecraft.networking.packets import PacketBuffer
    L = rel.layout(name, version)
    if payload is None:
        payload = rel.encode(name, version, values)
    frame = framing.frame(rel.ids(version)[name], payload)
    cls = py_class(name)
    clsname = PY[name][2]
    ok = True
    # (a) write
    ctx.count()
    case = rg.case({'version': version, 'name': name, 'kind': 'write',
                    'values': values})
    try:
        kw = {}
        for f, t in L:
            if name == 'sb.login.plugin_response' and f == 'data' and \
                    not values['successful']:
                kw['data'] = None
                continue
            kw[attr_of(name, f)] = to_py(name, f, t, values[f])
        pkt = cls(context=rg.ctx_for(version), **kw)
        buf = PacketBuffer()
        pkt.write(buf)
        got = buf.get_writable()
        if got != frame:
            ok = False
            ctx.outcome('write DIFFERS')
            ctx.violation(
                rg.key('write v=%d %s' % (version, name)), rg.what(
                    'protocol %d %s (%s): bytes written differ from the '
                    'published layout %s with id 0x%02X.\nvalues   %s\n'
                    'expected %s\ngot      %s%s' % (
                        version, name, clsname, [t for _, t in L],
                        rel.ids(version)[name], show(values), short(frame),
                        short(got), explain(name, version, got))), case)
        else:
            ctx.outcome('write == reference frame')
        # the same through ONE long-lived packet object per core packet,
        # whose fields are re-assigned for every vector (a program that
        # keeps a packet and sends it again with new values)
        old = _REUSED.get(('w', name))
        if old is None:
            old = _REUSED[('w', name)] = cls()
        old.context = rg.ctx_for(version)
        for a, v in kw.items():
            setattr(old, a, v)
        buf = PacketBuffer()
        old.write(buf)
        got2 = buf.get_writable()
        ctx.count()
        if got2 != frame and got == frame:
            ok = False
            ctx.violation(
                rg.key('write-reused-object v=%d %s' % (version, name)),
                rg.what(
                    'protocol %d %s (%s): a packet object that was written '
                    'before with other values, its documented fields '
                    're-assigned, writes bytes that differ from the '
                    'published layout (a fresh object with the same values '
                    'writes them correctly).\nvalues   %s\nexpected %s\n'
                    'got      %s' % (version, name, clsname, show(values),
                                     short(frame), short(got2))), case)
    except ToolError:
        raise
    except Exception as e:
        ok = False
        ctx.outcome('write RAISED')
        ctx.violation(
            rg.key('write-raises v=%d %s %s'
                   % (version, name, type(e).__name__)), rg.what(
                'protocol %d %s (%s): writing the documented fields %s '
                'raised %r\nvalues %s' % (version, name, clsname,
                                          [f for f, _ in L], e,
                                          show(values))), case)
    # (b) read
    ctx.count()
    case = dict(case, kind='read')
    try:
        pkt = cls(context=rg.ctx_for(version))
        buf = PacketBuffer()
        buf.send(payload)
        buf.reset_cursor()
        pkt.read(buf)
        left = buf.read()
        bad = []
        for f, t in L:
            exp = values[f]
            a = attr_of(name, f)
            if not hasattr(pkt, a):
                bad.append('%s missing' % a)
                continue
            g = getattr(pkt, a)
            if not same(name, f, t, g, exp):
                bad.append('%s: expected %s got %s'
                           % (a, show(exp), show(g)))
        if left:
            bad.append('%d bytes not consumed' % len(left))
        if not bad:
            # ... and decoded into ONE long-lived object per core packet
            old = _REUSED.get(('r', name))
            if old is None:
                old = _REUSED[('r', name)] = cls()
            old.context = rg.ctx_for(version)
            buf = PacketBuffer()
            buf.send(payload)
            buf.reset_cursor()
            old.read(buf)
            ctx.count()
            bad2 = ['%s: expected %s got %s' % (
                attr_of(name, f), show(values[f]),
                show(getattr(old, attr_of(name, f), None)))
                for f, t in L if not same(
                    name, f, t, getattr(old, attr_of(name, f), None),
                    values[f])]
            if bad2:
                ok = False
                ctx.violation(
                    rg.key('read-reused-object v=%d %s' % (version, name)),
                    rg.what(
                        'protocol %d %s (%s): decoding a payload in the '
                        'published layout into a packet object that has '
                        'decoded other payloads before gives other values '
                        '(a fresh object decodes it correctly): %s\npayload '
                        '%s' % (version, name, clsname, '; '.join(bad2[:6]),
                                short(payload))), case)
        if bad:
            ok = False
            ctx.outcome('read DIFFERS')
            ctx.violation(
                rg.key('read v=%d %s' % (version, name)), rg.what(
                    'protocol %d %s (%s): decoding a payload in the '
                    'published layout %s gives other values: %s\npayload %s'
                    % (version, name, clsname, [t for _, t in L],
                       '; '.join(bad[:6]), short(payload))), case)
        else:
            ctx.outcome('read == reference values, consumed exactly')
    except ToolError:
        raise
    except Exception as e:
        ok = False
        ctx.outcome('read RAISED')
        ctx.violation(
            rg.key('read-raises v=%d %s %s'
                   % (version, name, type(e).__name__)), rg.what(
                'protocol %d %s (%s): decoding a payload in the published '
                'layout %s (values %s) raised %r\npayload %s' % (
                    version, name, clsname, [t for _, t in L], show(values),
                    e, short(payload))), case)
    return ok


# -- (e) echo ----------------------------------------------------------------------
# which -> (clientbound packet, serverbound packet, field of both)
ECHO = {
    'keep_alive': ('play.keep_alive', 'sb.play.keep_alive', 'keep_alive_id'),
    'teleport': ('play.position_and_look', 'sb.play.teleport_confirm',
                 'teleport_id'),
}
ECHO_BASE = {'x': 8.5, 'y': 64.0, 'z': -8.5, 'yaw': 90.0, 'pitch': -45.0,
             'flags': 0, 'dismount_vehicle': False}


def echo_ids(alph, typ):
    """Boundary ids as values of the wire type (varint: signed 32-bit, i.e.
    the 32-bit pattern; long: signed 64-bit), without repeats."""
    if typ == 'varint':
        pats = [x % (1 << 32) for x in alph[0]['varint']] + \
            [x % (1 << 32) for x in (-1, -129, -2147483648)] + \
            [0x7FFFFFFF, 0x80000000, 0x80000001, 0xFFFFFF7F, 0xFFFFFFFF,
             0xDEADBEEF]
        ids_ = [p - (1 << 32) if p >> 31 else p for p in pats]
    elif typ == 'long':
        ids_ = list(alph[0]['long']) + [
            (1 << 63) - 1, -(1 << 63), -1, (1 << 63) - 2, -(1 << 63) + 1,
            0x80000000, 0xFFFFFFFF, 0xDEADBEEF,
            0xDEADBEEFDEADBEEF - (1 << 64)]
    else:
        raise ToolError('echo id of wire type %r' % typ)
    out = []
    for i in ids_:
        if i not in out:
            out.append(i)
    return out


def echo_cases(alph, version):
    out = []
    for which in sorted(ECHO):
        cb, sb, field = ECHO[which]
        Ls = rel.layout(sb, version)
        if Ls is None:
            continue                # teleport confirm does not exist in 1.8
        typ = dict(rel.layout(cb, version))[field]
        if Ls != [(field, typ)]:
            raise ToolError('echo %s: layouts %r' % (which, Ls))
        out += [(which, i) for i in echo_ids(alph, typ)]
    return out


def check_echo(ctx, version, which, wire, rg=FRESH):
    """(e): an id decoded from the server's bytes and copied into the answer
    must go out as the bytes the server sent.  The Python value in between is
    not looked at."""
    from minecraft.networking.packets import PacketBuffer
    cb, sb, field = ECHO[which]
    Lc = rel.layout(cb, version)
    typ = dict(Lc)[field]
    values = {f: (wire if f == field else ECHO_BASE[f]) for f, _ in Lc}
    payload = rel.encode(cb, version, values)
    id_bytes = rel.enc_field(typ, wire)
    want = rel.packet_frame(sb, version, {field: wire})
    if id_bytes not in payload or not want.endswith(id_bytes):
        raise ToolError('echo reference frames do not carry the id bytes')
    case = rg.case({'version': version, 'name': cb, 'kind': 'echo',
                    'echo': which, 'wire': wire, 'values': None})
    top = wire < 0
    ctx.count()
    ctx.cls('echo %s id as %s, top bit of the wire type %s'
            % (which, typ, 'set' if top else 'clear'))
    pattern = '0x%X' % (wire % (1 << (32 if typ == 'varint' else 64)))
    got_id = '(not decoded)'
    try:
        context = rg.ctx_for(version)
        pkt = py_class(cb)(context=context)
        buf = PacketBuffer()
        buf.send(payload)
        buf.reset_cursor()
        pkt.read(buf)
        got_id = getattr(pkt, field)
        # PlayingReactor.react: new serverbound packet, id copied over;
        # Connection.write_packet: context set; then Packet.write
        answer = py_class(sb)()
        setattr(answer, field, got_id)
        answer.context = context
        out = PacketBuffer()
        answer.write(out)
        got = out.get_writable()
        if got != want:
            ctx.outcome('echo DIFFERS')
            ctx.violation(
                rg.key('echo v=%d %s' % (version, which)), rg.what(
                    'protocol %d: the server sends %s with %s = %s %s '
                    '(bytes %s); pyCraft decodes it (as %r) and the answer '
                    '%s built from that value is written as %s, the '
                    'published answer carrying the same id bytes is %s'
                    % (version, cb, field, typ, pattern, id_bytes.hex(),
                       got_id, sb, short(got), short(want))), case)
            return False
        ctx.outcome('echo == the id bytes the server sent')
    except ToolError:
        raise
    except Exception as e:
        ctx.outcome('echo RAISED')
        ctx.violation(
            rg.key('echo-raises v=%d %s %s'
                   % (version, which, type(e).__name__)), rg.what(
                'protocol %d: the server sends %s with %s = %s %s (bytes '
                '%s); decoding it (got %r) and writing the answer %s with '
                'that value raised %r; the published answer is %s'
                % (version, cb, field, typ, pattern, id_bytes.hex(), got_id,
                   sb, e, short(want))), case)
        return False
    return True


def explain(name, version, got_frame):
    """Best effort: what the reference decoder makes of pyCraft's bytes."""
    try:
        r = ref.Reader(got_frame)
        n = r.varnum(5)
        body = ref.Reader(r.take(n))
        pid = body.varnum(5)
        note = '\ngot id 0x%02X' % pid
        try:
            vals = rel.decode(name, version, body.rest())
            return note + ', which reads in the published layout as ' + \
                show(vals)
        except Exception as e:
            return note + '; payload does not parse in the published ' \
                'layout (%s)' % type(e).__name__
    except Exception:
        return ''


_U8LEN = {}


def u8len(s):
    if len(s) < 1000:
        return len(ref.utf8(s))
    if s not in _U8LEN:
        _U8LEN[s] = len(ref.utf8(s))
    return _U8LEN[s]


def classify(ctx, version, name, values):
    L = rel.layout(name, version)
    for f, t in L:
        v = values[f]
        if t == 'string':
            n = u8len(v)
            if n != len(v):
                ctx.cls('string with non-ASCII (bytes != chars)')
            if n >= 128:
                ctx.cls('string with multi-byte length prefix')
            if n > 32767 and len(v) <= 32767:
                ctx.cls('string over 32767 UTF-8 bytes within 32767 '
                        'characters: %s' % name)
            if n == 32767:
                ctx.cls('string of exactly 32767 UTF-8 bytes')
        if t == 'varint' and v < 0:
            ctx.cls('VarInt negative on the wire (5 bytes)')
        if t == 'varint' and v >= 268435456:
            ctx.cls('VarInt of 5 bytes, non-negative')
        if t == 'ushort' and v >= 32768:
            ctx.cls('port >= 32768')
        if t == 'nbt' and v[1]:
            ctx.cls('NBT non-empty')
        if t == 'long' and v < 0:
            ctx.cls('Long negative')
        if t == 'bytes' and len(v) >= 128:
            ctx.cls('byte array with multi-byte length prefix')
    if name == 'play.keep_alive':
        ctx.cls('keep-alive as %s' % L[0][1])
    if name == 'login.success':
        ctx.cls('login success uuid as %s' % L[0][1])
    if name == 'play.chat':
        ctx.cls('chat %s sender' % ('with' if len(L) == 3 else 'without'))
    if name == 'play.position_and_look':
        ctx.cls('position-and-look with %d fields' % len(L))
    if name == 'play.join_game':
        ctx.cls('join game layout of %d fields, dimension %s'
                % (len(L), dict(L)['dimension']))
    if name == 'sb.play.chat' and len(values['message']) == (
            256 if version >= 315 else 100) and \
            u8len(values['message']) == 3 * len(values['message']):
        ctx.cls('serverbound chat at its character limit, 3-byte characters')


# -- enumeration ---------------------------------------------------------------------
_ALPH = {}
_VEC = {}       # filled by run() before the fork, so the walks share it


def alphabets(tier, seed):
    if (tier, seed) not in _ALPH:
        _ALPH[(tier, seed)] = build_alphabets(tier, seed)
    return _ALPH[(tier, seed)]


def all_vectors(tier, seed, version, name):
    k = (tier, seed, version, name)
    if k in _VEC:
        return _VEC[k]
    return vectors(alphabets(tier, seed), name, version, seed,
                   4000 if tier == 'thorough' else 400)


def judge_release(ctx, version, rg, tier, seed, k=0, K=1, cache=None,
                  first=True):
    """Everything of one release under one regime.  k, K: only the vectors
    k, k+K, ... of every packet; the id lookups, absent entries and echoes
    are carried by k == 0.  cache: (version, name) -> [[values, payload]]
    kept between the visits of a walk."""
    fresh = rg.mode == 'fresh'
    alph = alphabets(tier, seed)
    names = sorted(rel.ids(version))
    random.Random(seed * 31 + version).shuffle(names)
    if k == 0:
        for name in rel.absent(version):
            check_absent(ctx, version, name, rg)
            if fresh:
                ctx.cls('absent entry %s' % name)
                ctx.extra['absent_entries_judged'] = \
                    ctx.extra.get('absent_entries_judged', 0) + 1
    for name in names:
        if name not in PY:
            raise ToolError('no pyCraft mapping for %s' % name)
        if k == 0:
            check_ids(ctx, version, name, rg)
        items = None if cache is None else cache.get((version, name))
        if items is None:
            items = [[values, None] for values in
                     all_vectors(tier, seed, version, name)[k::K]]
            if cache is not None:
                cache[(version, name)] = items
        if first and rel.layout(name, version):
            ctx.note_distinct(len(items))
        for it in items:
            values, payload = it
            if payload is None:
                payload = rel.encode(name, version, values)
                if cache is not None:
                    it[1] = payload
            if fresh:
                classify(ctx, version, name, values)
            ok = check_case(ctx, version, name, values, rg, payload)
            if fresh and ok and name in (
                    'play.join_game', 'play.position_and_look',
                    'sb.handshake') and version in (47, 757):
                ctx.sample({'version': version, 'packet': name,
                            'frame': short(framing.frame(
                                rel.ids(version)[name], payload), 48)}, cap=2)
        if fresh:
            ctx.extra['packets_judged'] = \
                ctx.extra.get('packets_judged', 0) + 1
    if k == 0:
        cases = echo_cases(alph, version)
        random.Random(seed * 131 + version).shuffle(cases)
        if first:
            ctx.note_distinct(len(cases))
        for which, wire in cases:
            check_echo(ctx, version, which, wire, rg)
        if fresh:
            ctx.extra['echo_cases_fresh'] = \
                ctx.extra.get('echo_cases_fresh', 0) + len(cases)


def walk_order(label):
    R = list(rel.RELEASES)
    if label == 'moving':       # oldest -> newest -> oldest
        return R + R[-2::-1]
    if label == 'live':         # alternately from both ends, twice through
        return [w for pair in zip(R, R[::-1]) for w in pair]
    raise ToolError('walk %r' % (label,))


def history_walk(ctx, label, k, tier, seed):
    """One walk of a non-fresh regime: its own context object(s), the
    vectors k, k+WALKS, ... re-judged at every visit of a release."""
    use_repo()
    from minecraft.networking.connection import ConnectionContext
    order = walk_order(label)
    hist = {'label': label, 'walk': k, 'tier': tier, 'seed': seed}
    if label == 'moving':
        moving = ConnectionContext(protocol_version=order[0])
    else:
        live = dict((v, ConnectionContext(protocol_version=v))
                    for v in rel.RELEASES)
    cache, seen, prev = {}, set(), None
    before = ctx.evaluations
    for v in order:
        if label == 'moving':
            moving.protocol_version = v
            context = moving
        else:
            context = live[v]
        rg = Regime(label, context, hist, prev)
        judge_release(ctx, v, rg, tier, seed, k, WALKS, cache,
                      first=v not in seen)
        if k == 0:
            ctx.cls('%s context: visits of a release' % MODES[label][0][5:])
            if label == 'moving' and prev is not None:
                way = 'older' if prev < v else 'newer'
                ctx.cls('re-assigned context: release entered from %s one'
                        % ('an ' + way if way == 'older' else 'a ' + way))
                ctx.extra['entered_from_' + way] = \
                    ctx.extra.get('entered_from_' + way, []) + [v]
            if label == 'live' and prev is not None:
                ctx.extra['live_alternations'] = \
                    ctx.extra.get('live_alternations', 0) + 1
        seen.add(v)
        prev = v
    ctx.extra['evaluations_in_%s_walks' % MODES[label][0][5:]] = \
        ctx.evaluations - before


def worker(ctx, task):
    use_repo()
    if task[0] == 'release':
        judge_release(ctx, task[1], FRESH, ctx.tier, ctx.seed)
    else:
        history_walk(ctx, task[1], task[2], ctx.tier, ctx.seed)


REQUIRED_CLASSES = [
    'absent entry play.set_compression', 'absent entry login.plugin_request',
    'absent entry sb.play.teleport_confirm',
    'absent entry sb.login.plugin_response',
    'string with non-ASCII (bytes != chars)',
    'string with multi-byte length prefix',
    'VarInt negative on the wire (5 bytes)',
    'VarInt of 5 bytes, non-negative', 'port >= 32768', 'NBT non-empty',
    'Long negative', 'byte array with multi-byte length prefix',
    'keep-alive as varint', 'keep-alive as long',
    'login success uuid as string', 'login success uuid as uuid',
    'chat with sender', 'chat without sender',
    'position-and-look with 6 fields', 'position-and-look with 7 fields',
    'position-and-look with 8 fields',
    'join game layout of 7 fields, dimension byte',
    'join game layout of 7 fields, dimension int',
    'join game layout of 9 fields, dimension int',
    'join game layout of 14 fields, dimension string',
    'join game layout of 15 fields, dimension nbt',
    'join game layout of 16 fields, dimension nbt',
    'string of exactly 32767 UTF-8 bytes',
    'serverbound chat at its character limit, 3-byte characters',
    'echo keep_alive id as varint, top bit of the wire type set',
    'echo keep_alive id as varint, top bit of the wire type clear',
    'echo keep_alive id as long, top bit of the wire type set',
    'echo keep_alive id as long, top bit of the wire type clear',
    'echo teleport id as varint, top bit of the wire type set',
    'echo teleport id as varint, top bit of the wire type clear',
    're-assigned context: release entered from an older one',
    're-assigned context: release entered from a newer one',
    're-assigned context: visits of a release',
    'long-lived context: visits of a release',
] + ['string over 32767 UTF-8 bytes within 32767 characters: %s' % n
     for n, _ in LONG_STRING_FIELDS]


def probe_nbt_framing(ctx):
    """The NBT-carrying Join Game variants are judged only if pyCraft's NBT
    type frames the root tag the way network NBT did before 1.20.2 (type
    byte, 2-byte name length, name, entries).  This is a precondition probe,
    reported in the evidence; the variants themselves are judged by the
    ordinary cases."""
    use_repo()
    from minecraft.networking.types import NBT
    from minecraft.networking.packets import PacketBuffer
    try:
        buf = PacketBuffer()
        NBT.send(to_pynbt(NBT_ONE), buf)
        wrote = buf.get_writable()
        rd = from_pynbt(NBT.read(io.BytesIO(rel.nbt(NBT_ONE) + b'tail')))
        ok = wrote == rel.nbt(NBT_ONE) and rd == rel.nbt_canon(NBT_ONE)
    except Exception as e:
        ok = False
        wrote = repr(e).encode()
    ctx.extra['nbt_named_root_framing'] = (
        'pyCraft NBT type reads and writes a named root compound '
        '(0a 0000 ...): %s' % ok)
    return ok


def fold_history_violations(ctx):
    """A case that already fails with a fresh context is one finding, not
    three: drop its re-statements from the walks (their counts are added).
    What stays under a ' ctx=' key fails only with a used context."""
    folded = 0
    for key in sorted(ctx.violations):
        for mode in ('moving', 'live'):
            suffix = MODES[mode][0]
            if key.endswith(suffix) and \
                    key[:-len(suffix)] in ctx.violations:
                ctx.violations[key[:-len(suffix)]]['n'] += \
                    ctx.violations.pop(key)['n']
                folded += 1
    return folded


def run(ctx):
    mc = use_repo()
    try:
        rel.selftest()
    except AssertionError as e:
        raise ToolError('reference release table self-test failed: %r' % (e,))
    readme = set(rel.RELEASES)
    supported = set(mc.SUPPORTED_PROTOCOL_VERSIONS)
    ctx.extra['releases'] = list(rel.RELEASES)
    ctx.extra['releases_not_supported_by_tree'] = sorted(readme - supported)
    probe_nbt_framing(ctx)
    for _, text in long_strings(ctx.tier):     # memos shared by the fork
        rel.string_field(text)
        u8len(text)
    for v in rel.RELEASES:      # once, before the fork: the walks share them
        for name in rel.ids(v):
            _VEC[(ctx.tier, ctx.seed, v, name)] = \
                all_vectors(ctx.tier, ctx.seed, v, name)
    tasks = [('walk', label, k) for k in range(WALKS)
             for label in ('moving', 'live')]
    tasks += [('release', v) for v in rel.RELEASES]
    ctx.pmap(worker, tasks)
    ctx.extra['violations_restated_by_walks_folded'] = \
        fold_history_violations(ctx)
    ctx.extra['not_judged'] = list(rel.NOT_JUDGED)
    ctx.extra['table_entries_removed_after_disagreement'] = []
    missing = [c for c in REQUIRED_CLASSES if not ctx.classes.get(c)]
    if missing:
        raise ToolError('vacuous: classes never exercised: %r' % missing)
    if ctx.extra.get('absent_entries_judged') != sum(
            len(rel.absent(v)) for v in rel.RELEASES):
        raise ToolError('not every absent entry was judged')
    ctx.extra['absent_entries'] = [
        'play.set_compression: absent from every release >= 107',
        'sb.play.teleport_confirm: absent at 47',
        'login.plugin_request, sb.login.plugin_response: absent at 47..340']
    if ctx.extra.get('packets_judged') != sum(
            len(rel.ids(v)) for v in rel.RELEASES):
        raise ToolError('not every (release, packet) pair was judged')
    # the walks: every release entered from an older and from a newer one
    R = list(rel.RELEASES)
    if sorted(set(ctx.extra.get('entered_from_older', []))) != R[1:] or \
            sorted(set(ctx.extra.get('entered_from_newer', []))) != R[:-1]:
        raise ToolError('re-assigned walk did not enter every release from '
                        'both sides')
    for label, name in (('moving', 're-assigned'), ('live', 'long-lived')):
        if ctx.classes.get('%s context: visits of a release' % name) != \
                len(walk_order(label)):
            raise ToolError('%s walk incomplete' % name)
    ctx.extra['context_regimes'] = {
        'fresh': 'a new ConnectionContext per case',
        're-assigned': '%d walks x %d visits (oldest -> newest -> oldest), '
                       'one context object per walk'
                       % (WALKS, len(walk_order('moving'))),
        'long-lived': '%d walks x %d visits (47, 757, 107, 756, ...), %d '
                      'contexts per walk created up front'
                      % (WALKS, len(walk_order('live')), len(R)),
    }
    ctx.extra['long_strings'] = [
        '%s (%d characters)' % (label, len(text))
        for label, text in long_strings(ctx.tier)]


def replay(ctx, case):
    use_repo()
    hist = case.get('history')
    if hist:
        # an effect of earlier uses of the context needs the walk it was
        # seen in (same slice of vectors, same tier and seed)
        sub = ctx.fork()
        history_walk(sub, hist['label'], hist['walk'], hist['tier'],
                     hist['seed'])
        want = jsonable(dict((f, case.get(f)) for f in
                             ('version', 'name', 'kind', 'echo', 'wire')))
        for key in sorted(sub.violations):      # only the case asked for
            c = sub.violations[key]['case']
            if any(c.get(f) != want[f] for f in want):
                del sub.violations[key]
        ctx.absorb(sub)
        return
    version, name = case['version'], case['name']
    if case.get('kind') == 'absent':
        check_absent(ctx, version, name)
        return
    if case.get('kind') == 'echo':
        check_echo(ctx, version, case['echo'], case['wire'])
        return
    check_ids(ctx, version, name)
    if case.get('values') is not None:
        values = dict(case['values'])
        for f, t in rel.layout(name, version):
            if t == 'nbt':
                values[f] = rel.nbt_canon(values[f])
        check_case(ctx, version, name, values)
