"""Packet ids for the reference server.

Release versions: from vf.refproto.releases (independent).  Development
snapshots: no independent table exists offline, so ids are read from the tree
under test (and only ids - bytes are always encoded by refproto).
"""
from vf.refproto import releases

_CACHE = {}

PYCRAFT_NAMES = {
    'sb.handshake': ('serverbound', 'handshake', 'HandShakePacket'),
    'sb.status.request': ('serverbound', 'status', 'RequestPacket'),
    'sb.status.ping': ('serverbound', 'status', 'PingPacket'),
    'status.response': ('clientbound', 'status', 'ResponsePacket'),
    'status.pong': ('clientbound', 'status', 'PingResponsePacket'),
    'sb.login.start': ('serverbound', 'login', 'LoginStartPacket'),
    'sb.login.encryption_response': ('serverbound', 'login',
                                     'EncryptionResponsePacket'),
    'sb.login.plugin_response': ('serverbound', 'login',
                                 'PluginResponsePacket'),
    'login.disconnect': ('clientbound', 'login', 'DisconnectPacket'),
    'login.encryption_request': ('clientbound', 'login',
                                 'EncryptionRequestPacket'),
    'login.success': ('clientbound', 'login', 'LoginSuccessPacket'),
    'login.set_compression': ('clientbound', 'login', 'SetCompressionPacket'),
    'login.plugin_request': ('clientbound', 'login', 'PluginRequestPacket'),
    'play.keep_alive': ('clientbound', 'play', 'KeepAlivePacket'),
    'play.join_game': ('clientbound', 'play', 'JoinGamePacket'),
    'play.chat': ('clientbound', 'play', 'ChatMessagePacket'),
    'play.position_and_look': ('clientbound', 'play',
                               'PlayerPositionAndLookPacket'),
    'play.disconnect': ('clientbound', 'play', 'DisconnectPacket'),
    'play.set_compression': ('clientbound', 'play', 'SetCompressionPacket'),
    'play.time_update': ('clientbound', 'play', 'TimeUpdatePacket'),
    'play.update_health': ('clientbound', 'play', 'UpdateHealthPacket'),
    'sb.play.keep_alive': ('serverbound', 'play', 'KeepAlivePacket'),
    'sb.play.chat': ('serverbound', 'play', 'ChatPacket'),
    'sb.play.position_and_look': ('serverbound', 'play',
                                  'PositionAndLookPacket'),
    'sb.play.teleport_confirm': ('serverbound', 'play',
                                 'TeleportConfirmPacket'),
    'sb.play.plugin_message': ('serverbound', 'play', 'PluginMessagePacket'),
    'sb.play.animation': ('serverbound', 'play', 'AnimationPacket'),
    'sb.play.client_status': ('serverbound', 'play', 'ClientStatusPacket'),
}


def _from_tree(name, version):
    from minecraft.networking import packets
    from minecraft.networking.connection import ConnectionContext
    direction, state, cls = PYCRAFT_NAMES[name]
    mod = getattr(getattr(packets, direction), state)
    return getattr(mod, cls).get_id(ConnectionContext(protocol_version=version))


def ids(name, version):
    key = (name, version)
    if key not in _CACHE:
        got = None
        if version in releases.ERA_OF:
            got = releases.ids(version).get(name)
        if got is None:
            got = _from_tree(name, version)
        _CACHE[key] = got
    return _CACHE[key]


def tree_ids(name, version):
    """Always from the tree under test (for ids the table does not cover)."""
    return _from_tree(name, version)


def all_clientbound_play_ids(version):
    from minecraft.networking.packets import clientbound
    from minecraft.networking.connection import ConnectionContext
    ctx = ConnectionContext(protocol_version=version)
    return {c.get_id(ctx): c.__name__
            for c in clientbound.play.get_packets(ctx)}
