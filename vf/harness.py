"""Glue: the real Connection over vnet under pysched against refserver."""
import hashlib
import os

from vf import pysched, vnet, protoids
from vf.refserver import RefServer, Rank
from vf.runner import use_repo, VERIF, ToolError

_SETUP = {}


def setup():
    """Once per process: import the tree under test and rebind its seams."""
    if _SETUP:
        return _SETUP
    mc = use_repo()
    import sys
    import warnings
    warnings.filterwarnings('ignore', message='.*CFB8 has been moved.*')
    sys.setswitchinterval(1e-6)     # baton hand-offs: 6 ms -> 2.5 ms / run
    from vf.runner import pin_self
    pin_self()
    from minecraft.networking import connection as C
    from minecraft.networking import encryption as E
    pysched.install(C)
    vnet.install(C)
    E.os = _OsShim
    _SETUP.update(mc=mc, C=C, E=E,
                  rank=Rank(list(mc.KNOWN_PROTOCOL_VERSIONS)))
    return _SETUP


class _OsShim(object):
    """encryption.os: urandom is scripted and logged per execution."""
    @staticmethod
    def urandom(n):
        S = pysched.cur()
        log = S.__dict__.setdefault('urandom_log', [])
        k = len(log)
        seed = getattr(S, 'urandom_seed', 0)
        out = hashlib.blake2b(b'urandom %d %d' % (seed, k),
                              digest_size=min(64, max(1, n))).digest()
        out = (out * (n // len(out) + 1))[:n]
        log.append(out)
        return out


_RSA = {}


def rsa_key(bits=1024):
    """(private key object, DER SubjectPublicKeyInfo); cached under out/."""
    if bits in _RSA:
        return _RSA[bits]
    from cryptography.hazmat.primitives import serialization as ser
    from cryptography.hazmat.primitives.asymmetric import rsa
    path = os.path.join(VERIF, 'out', 'rsa%d.der' % bits)
    key = None
    if os.path.exists(path):
        try:
            with open(path, 'rb') as f:
                key = ser.load_der_private_key(f.read(), None)
        except Exception:
            key = None
    if key is None:
        key = rsa.generate_private_key(public_exponent=65537, key_size=bits)
        os.makedirs(os.path.dirname(path), exist_ok=True)
        tmp = path + '.%d' % os.getpid()
        with open(tmp, 'wb') as f:
            f.write(key.private_bytes(ser.Encoding.DER,
                                      ser.PrivateFormat.PKCS8,
                                      ser.NoEncryption()))
        os.replace(tmp, path)
    der = key.public_key().public_bytes(
        ser.Encoding.DER, ser.PublicFormat.SubjectPublicKeyInfo)
    _RSA[bits] = (key, der)
    return _RSA[bits]


class World(object):
    """Per-execution objects handed to a scenario body."""

    def __init__(self, S, **netkw):
        env = setup()
        self.S = S
        self.C, self.E, self.mc = env['C'], env['E'], env['mc']
        self.rank = env['rank']
        self.net = vnet.VNet(S, **netkw)
        self.servers = []
        self.exceptions = []        # (exc, where) delivered to handlers
        self.exits = 0

    def serve(self, host='srv', port=25565, **kw):
        """Listen with a RefServer per accepted connection."""
        def factory(conn):
            kw2 = dict(kw)
            if 'per_conn' in kw2:
                kw2.update(kw2.pop('per_conn')(len(self.servers)))
            conn.limit = kw2.pop('limit', None)
            srv = RefServer(conn, protoids.ids, self.rank, **kw2)
            self.servers.append(srv)
            return srv
        self.net.listen(host, port, factory)

    def connection(self, host='srv', port=25565, **kw):
        kw.setdefault('username', 'vfuser')
        return self.C.Connection(host, port, **kw)

    def settle(self, limit=None):
        self.net.settle(limit)


def run(body, prefix=(), tracing=False, horizon=20000, expect=None,
        seed=0, visited=None, budget=0, lenient=False, **netkw):
    """Execute body(World) as the driver; returns pysched.Execution."""
    setup()

    def driver(S):
        S.urandom_seed = seed
        S.urandom_log = []
        W = World(S, **netkw)
        return body(W)
    return pysched.run_execution(driver, prefix, tracing, horizon, expect,
                                 visited, budget, lenient)


def describe(packet):
    """Stable text for a received packet.  Not repr(): repr() of a generic
    Packet (unknown id) that has a context raises AttributeError in pyCraft
    (class-level access to the 'definition' property) - observed, outside
    every listed property, see DESIGN.md."""
    fields = sorted((k, v) for k, v in vars(packet).items()
                    if k != 'context' and not k.startswith('_vf'))
    try:
        pid = packet.id
    except Exception:
        pid = None
    return '%s id=%r %s' % (type(packet).__name__, pid,
                            ' '.join('%s=%r' % kv for kv in fields))
