"""Stateless, preemption-bounded exploration of schedules (CHESS-style).

scenario(prefix, expect) -> pysched.Execution whose .result is a dict
    {'outcome': hashable/JSON-able summary of what was observed,
     'violations': [(key, what), ...]}

An execution is determined by its choice list.  explore() runs the empty
prefix (choice 0 everywhere = the running agent continues, else lowest id),
then, depth-first, every alternative at every choice point after the prefix
whose preemption cost stays within the bound - exactly the scheme of
Musuvathi & Qadeer's iterative context bounding.  The subtrees below the
root's children are independent and are farmed out to a fork pool.
"""
import os

from vf.runner import ToolError, h64, jsonable
from vf import pysched


def children(x, prefix_len, used, bound):
    """Alternatives after the prefix: (choices, preemptions used)."""
    out = []
    for i in range(prefix_len, len(x.points)):
        n, cur_en, sig = x.points[i]
        cost = used + (1 if cur_en else 0)
        if cost > bound:
            continue
        for alt in range(1, n):
            out.append((x.choices[:i] + [alt], cost))
    return out


class Result(object):
    def __init__(self):
        self.execs = 0
        self.points = 0
        self.outcomes = {}
        self.violations = {}     # key -> (what, choices, outcome)
        self.failures = 0
        self.max_pre = 0
        self.with_pre = 0
        self.states = set()
        self.capped = False

    def add(self, x, choices, used):
        self.execs += 1
        self.points += x.steps
        self.max_pre = max(self.max_pre, x.preemptions)
        if x.preemptions:
            self.with_pre += 1
        res = x.result or {}
        if x.failure is not None:
            self.failures += 1
            res = dict(res)
            res.setdefault('violations', [])
            res['violations'] = list(res['violations']) + [
                ('%s' % x.failure[0], '%s: %s' % x.failure)]
            res.setdefault('outcome', ('failure', x.failure[0]))
        o = repr(jsonable(res.get('outcome')))
        self.outcomes[o] = self.outcomes.get(o, 0) + 1
        for st in res.get('states', ()):
            self.states.add(st)
        for key, what in res.get('violations', ()):
            if key not in self.violations:
                self.violations[key] = (what, list(choices), o)

    def merge(self, other):
        self.execs += other.execs
        self.points += other.points
        self.failures += other.failures
        self.max_pre = max(self.max_pre, other.max_pre)
        self.with_pre += other.with_pre
        self.states |= other.states
        self.capped = self.capped or other.capped
        for k, v in other.outcomes.items():
            self.outcomes[k] = self.outcomes.get(k, 0) + v
        for k, v in other.violations.items():
            if k not in self.violations or \
                    (len(v[1]), v[1]) < (len(self.violations[k][1]),
                                         self.violations[k][1]):
                self.violations[k] = v


def subtree(scenario, prefix, used, bound, res, budget=None, parent=None):
    """DFS below (and including) the execution selected by prefix."""
    stack = [(list(prefix), used, parent)]
    while stack:
        pre, u, par = stack.pop()
        if budget is not None and res.execs >= budget:
            res.capped = True
            return
        x = scenario(pre, par)
        res.add(x, x.choices, u)
        sigs = [p[2] for p in x.points]
        for ch, cost in reversed(children(x, len(pre), u, bound)):
            stack.append((ch, cost, sigs))


def confirm(scenario, choices, key):
    """Replay a failing schedule twice; both must fail identically."""
    seen = []
    for _ in range(2):
        x = scenario(list(choices), None)
        res = x.result or {}
        keys = sorted(k for k, _ in res.get('violations', ()))
        if x.failure is not None:
            keys.append(x.failure[0])
        seen.append((keys, repr(jsonable(res.get('outcome')))))
    if seen[0] != seen[1]:
        raise pysched.Nondeterminism(
            'schedule %r does not replay identically: %r vs %r'
            % (choices, seen[0], seen[1]))
    return key in seen[0][0]


class _Task(object):
    """Picklable subtree job: scenario factory name + params."""
    def __init__(self, factory, params, bound, budget):
        self.factory, self.params = factory, params
        self.bound, self.budget = bound, budget

    def __call__(self, ctx, task):
        prefix, used, parent = task
        scenario = self.factory(self.params)
        res = Result()
        subtree(scenario, prefix, used, self.bound, res, self.budget, parent)
        ctx.extra['_res'] = [res]


def explore(ctx, factory, params, bound, budget=None, label=''):
    """Explore all schedules of factory(params) within the preemption bound.
    Returns the merged Result; violations are confirmed by double replay
    and reported on ctx with the schedule as the replayable case."""
    scenario = factory(params)
    res = Result()
    root = scenario([], None)
    res.add(root, root.choices, 0)
    sigs = [p[2] for p in root.points]
    kids = [(ch, cost, sigs) for ch, cost in children(root, 0, 0, bound)]
    seed = ctx.seed
    if seed:
        import random
        random.Random(seed).shuffle(kids)
    sub = ctx.fork()
    sub.pmap(_Task(factory, params, bound, budget), kids)
    for r in sub.extra.get('_res', []):
        res.merge(r)
    for key in sorted(res.violations):
        what, choices, outcome = res.violations[key]
        if not confirm(scenario, choices, key):
            raise pysched.Nondeterminism(
                'violation %r vanished on replay of %r' % (key, choices))
        ctx.violation('%s%s' % (label, key),
                      '%s\nschedule (choice list): %r\noutcome: %s'
                      % (what, choices, outcome),
                      {'params': params, 'choices': choices, 'key': key})
    ctx.count(res.execs)
    ctx.traces += res.execs
    ctx.transitions += res.points
    ctx.states |= res.states
    for o, n in res.outcomes.items():
        ctx.outcome(label + o[:200], n)
        ctx.note((label, o))
    if res.capped:
        ctx.cap('%sexecution budget %r reached' % (label, budget))
    return res
