"""Stateless, preemption-bounded exploration of schedules (CHESS-style).

scenario(prefix, expect) -> pysched.Execution whose .result is a dict
    {'outcome': hashable/JSON-able summary of what was observed,
     'violations': [(key, what), ...]}

An execution is determined by its choice list.  explore() runs the empty
prefix (choice 0 everywhere = the running agent continues, else lowest id),
then, depth-first, every alternative at every choice point after the prefix
whose preemption cost stays within the bound - exactly the scheme of
Musuvathi & Qadeer's iterative context bounding.  The subtrees below the
root's children are independent and are farmed out to a fork pool.
"""
import os

from vf.runner import ToolError, h64, jsonable
from vf import pysched, sharedtable


def children(x, prefix_len, used, bound):
    """Alternatives after the prefix: (choices, preemptions used)."""
    out = []
    for i in range(prefix_len, len(x.points)):
        n, cur_en, sig = x.points[i]
        cost = used + (1 if cur_en else 0)
        if cost > bound:
            continue
        for alt in range(1, n):
            out.append((x.choices[:i] + [alt], cost))
    return out


class Result(object):
    def __init__(self):
        self.execs = 0
        self.points = 0
        self.outcomes = {}
        self.violations = {}     # key -> (what, choices, outcome)
        self.failures = 0
        self.max_pre = 0
        self.with_pre = 0
        self.states = set()
        self.capped = False
        self.pruned = 0
        self.state_keys = 0

    def add(self, x, choices, used):
        self.execs += 1
        self.points += x.steps
        self.state_keys += getattr(x, 'state_keys', 0)
        self.max_pre = max(self.max_pre, x.preemptions)
        if x.preemptions:
            self.with_pre += 1
        if x.failure is not None and x.failure[0] == 'pruned':
            self.execs -= 1
            self.pruned += 1
            return
        res = x.result or {}
        if x.failure is not None:
            self.failures += 1
            res = dict(res)
            res.setdefault('violations', [])
            res['violations'] = list(res['violations']) + [
                ('%s' % x.failure[0], '%s: %s' % x.failure)]
            res.setdefault('outcome', ('failure', x.failure[0]))
        o = repr(jsonable(res.get('outcome')))
        self.outcomes[o] = self.outcomes.get(o, 0) + 1
        for st in res.get('states', ()):
            self.states.add(st)
        for key, what in res.get('violations', ()):
            if key not in self.violations:
                self.violations[key] = (what, list(choices), o)

    def merge(self, other):
        self.execs += other.execs
        self.pruned += other.pruned
        self.state_keys += other.state_keys
        self.points += other.points
        self.failures += other.failures
        self.max_pre = max(self.max_pre, other.max_pre)
        self.with_pre += other.with_pre
        self.states |= other.states
        self.capped = self.capped or other.capped
        for k, v in other.outcomes.items():
            self.outcomes[k] = self.outcomes.get(k, 0) + v
        for k, v in other.violations.items():
            if k not in self.violations or \
                    (len(v[1]), v[1]) < (len(self.violations[k][1]),
                                         self.violations[k][1]):
                self.violations[k] = v


def subtree(scenario, prefix, used, bound, res, budget=None, parent=None,
            visited=None):
    """DFS below (and including) the execution selected by prefix.
    visited: dict shared by the whole DFS (state key -> budget left) or None
    for plain stateless search."""
    stack = [(list(prefix), used, parent)]
    while stack:
        pre, u, par = stack.pop()
        if budget is not None and res.execs >= budget:
            res.capped = True
            return
        x = scenario(pre, par, visited, bound)
        res.add(x, x.choices, u)
        sigs = [p[2] for p in x.points]
        for ch, cost in reversed(children(x, len(pre), u, bound)):
            stack.append((ch, cost, sigs))


def confirm(scenario, choices, key):
    """Replay a failing schedule twice; both must fail identically."""
    seen = []
    for _ in range(2):
        x = scenario(list(choices), None, None, 0)
        res = x.result or {}
        keys = sorted(k for k, _ in res.get('violations', ()))
        if x.failure is not None:
            keys.append(x.failure[0])
        seen.append((keys, repr(jsonable(res.get('outcome')))))
    if seen[0] != seen[1]:
        raise pysched.Nondeterminism(
            'schedule %r does not replay identically: %r vs %r'
            % (choices, seen[0], seen[1]))
    return key in seen[0][0]


_TABLE = [None]       # shared visited table, inherited by pool workers
BATCH = 12            # executions per worker task before handing back


def in_child(fn, *args):
    """Run fn(*args) in a forked child of this process and return its
    (picklable) result - for computations that must not leave any state
    behind in this process (lazily built tables, memo caches of the tree
    under test).  Only call from a process that has never run a scenario
    thread (see Explorer)."""
    import pickle
    import traceback
    r, w = os.pipe()
    pid = os.fork()
    if pid == 0:
        try:
            os.close(r)
            try:
                data = pickle.dumps(('ok', fn(*args)))
            except BaseException as e:
                data = pickle.dumps(('err', '%r\n%s'
                                     % (e, traceback.format_exc())))
            with os.fdopen(w, 'wb') as f:
                f.write(data)
        finally:
            os._exit(0)
    os.close(w)
    with os.fdopen(r, 'rb') as f:
        data = f.read()
    os.waitpid(pid, 0)
    if not data:
        raise ToolError('child process died without a result')
    kind, payload = pickle.loads(data)
    if kind != 'ok':
        raise ToolError('child process failed: %s' % payload)
    return payload


def _cold(scenario):
    """scenario run in a fresh fork of this (worker) process every time: each
    execution starts from the process state the worker was forked with, so
    first-use effects (lazily filled tables, memo caches) are part of every
    execution and nothing leaks from one execution into the next."""
    prepare = getattr(scenario, 'prepare', None)
    if prepare is not None:
        # (imports, scheduler hooks, scheduling points: once per worker, the
        # children inherit them; it must not execute library code paths)
        prepare()

    def one(pre, par, visited, bound):
        x = scenario(pre, par, None, bound)
        return dict((k, getattr(x, k, None))
                    for k in pysched.Execution.__slots__)

    def run(pre, par, visited, bound):
        d = in_child(one, pre, par, visited, bound)
        x = pysched.Execution()
        for k, v in d.items():
            setattr(x, k, v)
        return x
    return run


def _work(args):
    """Pool task: a bounded piece of DFS; returns (Result, leftover stack)."""
    factory, params, bound, memo, items = args[:5]
    cold = len(args) > 5 and args[5]
    try:
        scenario = factory(params)
        if cold:
            scenario = _cold(scenario)
        if bound == 'confirm':
            return confirm(scenario, items[0], items[1]), None, None
        res = Result()
        stack = list(items)
        n = 0
        if memo and _TABLE[0] is not None:
            # one table serves every exploration of a check: the scenario's
            # identity is part of every state key
            _TABLE[0].salt = h64((getattr(factory, '__module__', ''),
                                  getattr(factory, '__name__', ''),
                                  repr(params)))
        while stack and n < BATCH:
            pre, u, par = stack.pop()
            x = scenario(pre, par, _TABLE[0] if memo else None, bound)
            res.add(x, x.choices, u)
            n += 1
            sigs = [p[2] for p in x.points]
            for ch, cost in reversed(children(x, len(pre), u, bound)):
                stack.append((ch, cost, sigs))
        return res, stack, None
    except BaseException as e:
        import traceback
        return None, None, '%r\n%s' % (e, traceback.format_exc())


class Explorer(object):
    """A pool of worker processes forked *before* any scenario has run, plus
    the shared visited table they all prune against.

    The parent never executes a scenario itself: scenario threads use OpenSSL
    (RSA, AES), and a process forked while such a thread is still running its
    exit handlers inherits OpenSSL's thread-init lock in the locked state and
    hangs in its first RSA call (observed; see DESIGN.md)."""

    def __init__(self, table_bits=23, memo=True):
        import multiprocessing
        import queue as _q
        from vf import runner
        self.memo = memo
        self.table = sharedtable.SharedTable(table_bits) if memo else None
        _TABLE[0] = self.table
        self.jobs = 1 if os.environ.get('VERIF_SERIAL') else runner.JOBS
        self.done = _q.Queue()
        self.pool = None
        if self.jobs > 1:
            mp = multiprocessing.get_context('fork')
            counter = mp.Value('i', 0)
            self.pool = mp.Pool(self.jobs, initializer=runner._pin,
                                initargs=(counter,))

    def close(self):
        if self.pool is not None:
            self.pool.terminate()
            self.pool.join()
            self.pool = None
        _TABLE[0] = None

    def __enter__(self):
        return self

    def __exit__(self, *exc):
        self.close()
        return False

    def call(self, args):
        """Run one _work task synchronously (in a worker if there is one)."""
        if self.pool is None:
            out = _work(args)
        else:
            out = self.pool.apply(_work, (args,))
        if out[2]:
            raise ToolError('worker failed: %s' % out[2])
        return out

    def bound(self, ctx, factory, params, bound, max_execs, fresh=True,
              cold=False):
        """One complete exploration at one preemption bound."""
        # The table is never cleared: keys carry the scenario's identity, and
        # entries record the preemption budget that was left, so a state met
        # again under a larger bound is expanded again.
        res = Result()
        pending = [([], 0, None)]
        inflight = 0
        first = True
        while pending or inflight:
            stop = bool(res.violations) or (
                max_execs is not None and res.execs >= max_execs)
            if stop:
                if not res.violations and pending:
                    res.capped = True
                pending = []
            if self.pool is None:
                if not pending:
                    break
                r, pending, err = _work((factory, params, bound, self.memo,
                                         pending, cold))
                if err:
                    raise ToolError('worker failed: %s' % err)
                res.merge(r)
                continue
            while pending and inflight < 3 * self.jobs:
                k = max(1, min(4, len(pending) // (2 * self.jobs)))
                items, pending = pending[-k:], pending[:-k]
                self.pool.apply_async(
                    _work, ((factory, params, bound, self.memo, items,
                             cold),),
                    callback=self.done.put, error_callback=self.done.put)
                inflight += 1
            if not inflight:
                break
            got = self.done.get()
            inflight -= 1
            if isinstance(got, BaseException):
                raise ToolError('worker failed: %r' % (got,))
            r, left, err = got
            if err:
                raise ToolError('worker failed: %s' % err)
            res.merge(r)
            if first and ctx.seed:
                import random
                random.Random(ctx.seed).shuffle(left)
            first = False
            pending.extend(left)
        return res

    def explore(self, ctx, factory, params, bound, budget=None, label='',
                fresh_table=True, cold=False):
        """Explore all schedules of factory(params), iterating the preemption
        bound 0, 1, ..., bound (so the first counterexample found has the
        fewest preemptions) and stopping at the first bound with a
        violation.  Violations are confirmed by double replay and reported
        on ctx with the schedule as the replayable case.  Returns the Result
        of the last bound explored.  cold=True: every execution runs in a
        fresh fork of its worker (no memoisation, first-use effects included
        in every execution); the scenario's result must be picklable."""
        res = None
        for b in range(0, bound + 1):
            # fresh_table=False: the caller guarantees that state keys of
            # different explorations cannot coincide (the scenario's identity
            # is part of its state) and explores a single bound
            res = self.bound(ctx, factory, params, b, budget,
                             fresh_table or b > 0, cold)
            ctx.count(res.execs)
            ctx.traces += res.execs
            ctx.transitions += res.points
            if b == bound or res.violations:
                ctx.states_extra += max(0, res.state_keys - res.pruned)
            ctx.extra['states_hashed'] = ctx.extra.get('states_hashed', 0) \
                + res.state_keys
            ctx.extra['executions_cut_at_visited_state'] = ctx.extra.get(
                'executions_cut_at_visited_state', 0) + res.pruned
            if self.table is not None and self.table.full:
                ctx.extra['visited_table_overflow'] = 1
            if res.capped:
                ctx.cap('%sbound %d: execution budget %r reached'
                        % (label, b, budget))
            if res.violations:
                break
        res.bound_reached = b
        for key in sorted(res.violations):
            what, choices, outcome = res.violations[key]
            ok, _, _ = self.call((factory, params, 'confirm', False,
                                  (choices, key), cold))
            if not ok:
                raise pysched.Nondeterminism(
                    'violation %r vanished on replay of %r' % (key, choices))
            ctx.violation('%s%s' % (label, key),
                          '%s\nfound at preemption bound %d; schedule '
                          '(choice list): %r\noutcome: %s'
                          % (what, b, choices, outcome),
                          {'params': params, 'choices': choices, 'key': key})
        for o, n in res.outcomes.items():
            ctx.outcome(label + o[:200], n)
            ctx.note((label, o))
        return res
