"""Visited-state tables for the schedule explorer.

lookup(h) -> preemption budget that was left when state h was expanded, or
None; store(h, left).  h is a 64-bit hash of the canonical state.

SharedTable lives in shared memory (inherited through fork) so that all
workers of one exploration prune against each other's work.  It is an
open-addressing table of two 64-bit words per slot: the hash, and a word that
repeats the top 56 bits of the hash next to the 8-bit budget.  Stores are not
locked; an entry torn by two simultaneous writers fails the repeat check and
reads as absent, and a lost entry only costs a duplicate expansion.  Reads
that see an entry are always sound: whoever wrote it goes on to expand that
state with the budget it wrote.
"""
import multiprocessing

M64 = (1 << 64) - 1


class DictTable(object):
    def __init__(self):
        self.d = {}

    def lookup(self, h):
        return self.d.get(h)

    def store(self, h, left):
        self.d[h] = left

    def __len__(self):
        return len(self.d)


class SharedTable(object):
    def __init__(self, bits=22):
        self.n = 1 << bits
        self.mask = self.n - 1
        self.arr = multiprocessing.RawArray('Q', 2 * self.n)
        self.full = False

    def clear(self):
        import ctypes
        ctypes.memset(ctypes.addressof(self.arr), 0, 16 * self.n)
        self.full = False

    def _h(self, h):
        h &= M64
        return h or 1

    def lookup(self, h):
        h = self._h(h)
        arr, mask = self.arr, self.mask
        i = (h ^ (h >> 29)) & mask
        for _ in range(64):
            k = arr[2 * i]
            if k == 0:
                return None
            if k == h:
                w = arr[2 * i + 1]
                if (w >> 8) == (h >> 8):
                    return w & 0xFF
                return None
            i = (i + 1) & mask
        return None

    def store(self, h, left):
        h = self._h(h)
        arr, mask = self.arr, self.mask
        i = (h ^ (h >> 29)) & mask
        for _ in range(64):
            k = arr[2 * i]
            if k == 0 or k == h:
                arr[2 * i + 1] = ((h >> 8) << 8) | (left & 0xFF)
                arr[2 * i] = h
                return
            i = (i + 1) & mask
        self.full = True        # probe limit: entry dropped (sound)
