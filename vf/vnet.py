"""vnet - the operating system's network as a model the harness owns.

Rebinds ``connection.socket``, ``connection.select`` and ``connection.timeit``
to virtual objects.  Every answer the OS could legitimately give is decided
here: how many bytes a read returns, when data arrives, where the stream ends,
whether connect is refused.  Bound to real sockets by selftest/vnet_conformance.
"""
import errno

from vf import pysched
from vf.runner import ToolError

AF_INET, AF_INET6, SOCK_STREAM = 2, 10, 1
SHUT_RD, SHUT_WR, SHUT_RDWR = 0, 1, 2


class VConn(object):
    """One TCP connection: two pipes plus the server-side bookkeeping."""

    def __init__(self, net, cid, host, port):
        self.net, self.id, self.host, self.port = net, cid, host, port
        self.c2s = bytearray()       # everything the client sent, in order
        self.sends = []              # (agent id, bytes, consumed) per send call
        self.consumed = 0            # s2c bytes the client has read so far
        self.hist = 0                # running hash of the send history
        self.limit = None            # fault injection: cut s2c after n bytes
        self.pushed_total = 0
        self.cut_done = False
        self.frame_ends = []         # s2c offsets where server frames end
        self.fed = 0                 # send calls already shown to the server
        self.s2c = bytearray()       # readable by the client now
        self.outbox = bytearray()    # pushed by the server, not yet delivered
        self.eof_pending = False     # server closed; EOF follows the outbox
        self.s2c_eof = False
        self.wr_shutdown = False     # client shut its write side / closed
        self.rd_shutdown = False
        self.sock_closed = False
        self.file_closed = False
        self.sent_after_end = 0      # bytes sent after server closed
        self.reads_after_eof = 0
        self.read_calls = 0
        self.server = None
        self.close_order = []        # order of shutdown/close calls seen

    # server side
    def push(self, data):
        if self.eof_pending:
            if self.cut_done:
                return              # fault injection: stream was cut here
            raise ToolError('server pushes after close')
        if not data:
            return
        self.pushed_total += len(data)
        if self.limit is not None:
            room = self.limit - (self.pushed_total - len(data))
            if room <= len(data):       # the k-th byte is the last one sent
                data = data[:max(0, room)]
                self.cut_done = True
        self._push(data)
        if self.cut_done:
            self.close()

    def _push(self, data):
        if not data:
            return
        if self.net.hold:
            self.outbox += data
        else:
            self.s2c += data
            self.net.S.effect()

    def close(self):
        """Server closes: the client sees EOF after everything pushed."""
        self.eof_pending = True
        if not self.outbox:
            self.s2c_eof = True
            self.net.S.effect()

    @property
    def client_gone(self):
        return self.sock_closed or self.wr_shutdown

    def readable(self):
        return bool(self.s2c) or self.s2c_eof or self.rd_shutdown

    def deliver(self, limit=None):
        """Move held server output to the client; True if anything moved."""
        moved = False
        if self.outbox:
            k = len(self.outbox) if limit is None else min(limit,
                                                           len(self.outbox))
            self.s2c += self.outbox[:k]
            del self.outbox[:k]
            moved = True
        if self.eof_pending and not self.outbox and not self.s2c_eof:
            self.s2c_eof = True
            moved = True
        if moved:
            self.net.S.effect()
        return moved


class VSocket(object):
    def __init__(self, net, family, type_, proto):
        self.net = net
        self.family, self.type, self.proto = family, type_, proto
        self.conn = None
        self.closed = False             # really closed (fd released)
        self.close_requested = False    # close() called
        self.io_refs = 0                # open makefile() objects
        self.timeout = None             # None = blocking
        self.fd = net.new_fd(self)
        self.files = 0

    def _S(self):
        return self.net.S

    def connect(self, addr):
        S = self._S()
        S.point('sock.connect')
        if self.closed:
            raise OSError(errno.EBADF, 'Bad file descriptor')
        host, port = addr[0], addr[1]
        ep = self.net.endpoints.get((host, port), self.net.default)
        if ep is None or ep == 'refuse':
            S.event('connect-refused', host, port)
            self.net.refused += 1
            raise ConnectionRefusedError(errno.ECONNREFUSED,
                                         'Connection refused')
        c = VConn(self.net, len(self.net.conns), host, port)
        self.net.conns.append(c)
        self.conn = c
        S.event('connect', c.id, host, port)
        S.effect()
        c.server = ep(c)
        if c.limit == 0:                # fault injection: nothing, then EOF
            c.cut_done = True
            c.close()
        if c.server is not None and hasattr(c.server, 'on_connect'):
            c.server.on_connect(c)

    def makefile(self, mode='r', buffering=None):
        if mode != 'rb' or buffering != 0:
            raise ToolError('vnet models makefile("rb", 0) only')
        self.files += 1
        self.io_refs += 1
        return VFile(self)

    def send(self, data):
        S = self._S()
        S.point('sock.send')
        c = self.conn
        if self.closed:
            raise OSError(errno.EBADF, 'Bad file descriptor')
        if c is None:
            raise BrokenPipeError(errno.EPIPE, 'Broken pipe')
        if c.wr_shutdown:
            raise BrokenPipeError(errno.EPIPE, 'Broken pipe')
        data = bytes(data)
        if self.timeout is not None and len(data) > 1:
            data = data[:max(1, len(data) // 2)]    # short write
        if c.eof_pending:
            c.sent_after_end += len(data)
            mode = self.net.send_after_close
            if mode in ('raise', 'reset') or (
                    mode in ('ok_once', 'reset_once')
                    and c.sent_after_end > len(data)):
                S.event('send-fail', c.id, S.me().id)
                if mode.startswith('reset'):
                    # the peer's reset has arrived (it closed with unread
                    # data of ours in its receive buffer)
                    raise ConnectionResetError(errno.ECONNRESET,
                                               'Connection reset by peer')
                raise BrokenPipeError(errno.EPIPE, 'Broken pipe')
        c.c2s += data
        c.sends.append((S.me().id, data, c.consumed))
        if S.window:        # before the window everything is scripted
            c.hist = hash((c.hist, S.me().id, data, c.consumed))
        S.event('send', c.id, S.me().id, data)
        S.effect()
        if self.net.eager and c.server is not None:
            self.net.feed(c)
        return len(data)

    sendall = send

    def recv(self, n):
        return _read(self, n, 'sock.recv')

    def shutdown(self, how):
        S = self._S()
        S.point('sock.shutdown')
        if self.closed:
            raise OSError(errno.EBADF, 'Bad file descriptor')
        c = self.conn
        if c is None:
            raise OSError(errno.ENOTCONN, 'Transport endpoint is not '
                          'connected')
        if c.sent_after_end or (c.wr_shutdown and c.rd_shutdown
                                and c.eof_pending):
            # the connection is already fully closed or was reset by the
            # peer (we wrote after it had closed): ENOTCONN, as on Linux
            raise OSError(errno.ENOTCONN, 'Transport endpoint is not '
                          'connected')
        if how in (SHUT_WR, SHUT_RDWR):
            c.wr_shutdown = True
        if how in (SHUT_RD, SHUT_RDWR):
            c.rd_shutdown = True
        c.close_order.append('shutdown')
        S.event('shutdown', c.id, S.me().id)
        S.effect()
        if self.net.eager and c.server is not None:
            self.net.feed(c)

    def close(self):
        """socket.close(): while a makefile() object is still open the fd
        stays open and the socket object remains fully usable (CPython's
        _io_refs); the real close happens when the last file closes."""
        S = self._S()
        if S.aborting:
            return
        S.point('sock.close')
        if self.close_requested:
            return
        self.close_requested = True
        c = self.conn
        if c is not None:
            c.sock_closed = True
            c.close_order.append('sock.close')
            S.event('sock.close', c.id, S.me().id)
        self._maybe_release()
        S.effect()

    def _maybe_release(self):
        if self.close_requested and self.io_refs <= 0 and not self.closed:
            self.closed = True
            c = self.conn
            if c is not None:
                c.wr_shutdown = True   # the fd is really gone: peer sees EOF
                if self.net.eager and c.server is not None:
                    self.net.feed(c)

    def fileno(self):
        return -1 if self.closed else self.fd

    def settimeout(self, t):
        """Timeout mode (t is not None) changes what the OS may answer: a
        send may be short, and a read that finds nothing may give up with
        socket.timeout instead of waiting.  The model then gives exactly
        those answers (pyCraft itself never sets a timeout)."""
        self.timeout = t

    def gettimeout(self):
        return self.timeout

    def setblocking(self, flag):
        self.timeout = None if flag else 0.0

    def setsockopt(self, *a):
        pass


def _read(sock, n, kind, fobj=None):
    S = sock.net.S
    S.point(kind)
    c = sock.conn
    if fobj is not None and fobj.closed:
        raise ValueError('I/O operation on closed file.')
    if fobj is None and sock.closed:
        raise OSError(errno.EBADF, 'Bad file descriptor')
    if c is None:
        raise OSError(errno.ENOTCONN, 'Transport endpoint is not connected')
    c.read_calls += 1
    if n is None or n < 0:
        S.block_until(lambda: c.s2c_eof or c.rd_shutdown
                      or (fobj is not None and fobj.closed), 'read')
        if fobj is not None and fobj.closed:
            raise ValueError('I/O operation on closed file.')
        data = bytes(c.s2c)
        del c.s2c[:]
        c.consumed += len(data)
        return data
    if n == 0:
        return b''
    if not c.readable():
        if sock.timeout is not None:
            S.event('read-timeout', c.id, S.me().id)
            raise TimeoutError('timed out')
        # Closing the file (or the socket) does NOT wake a reader that is
        # already blocked in recv (Linux): only data, the peer's end of
        # stream, or a local shutdown(SHUT_RD/RDWR) does.
        S.block_until(lambda: c.readable(), 'read')
        if fobj is not None and fobj.closed:
            raise ValueError('I/O operation on closed file.')
    if c.rd_shutdown and not c.s2c:
        return b''          # (data received before SHUT_RD stays readable)
    if not c.s2c:
        c.reads_after_eof += 1
        S.event('read-eof', c.id, S.me().id)
        if c.reads_after_eof > sock.net.eof_read_limit:
            S._fail('livelock', 'connection %d: %d reads after end of '
                    'stream' % (c.id, c.reads_after_eof), S.me())
        return b''
    k = min(n, len(c.s2c))
    if sock.net.seg is not None:
        k = max(1, min(k, sock.net.seg(c, n, len(c.s2c))))
    data = bytes(c.s2c[:k])
    del c.s2c[:k]
    c.consumed += k
    S.event('read', c.id, S.me().id, len(data))
    S.effect()
    return data


class VFile(object):
    def __init__(self, sock):
        self.sock = sock
        self.closed = False

    def read(self, n=-1):
        return _read(self.sock, n, 'file.read', self)

    def fileno(self):
        if self.closed:
            raise ValueError('I/O operation on closed file')
        return self.sock.fd

    def close(self):
        S = self.sock.net.S
        if S.aborting:
            return
        S.point('file.close')
        if self.closed:
            return
        self.closed = True
        c = self.sock.conn
        if c is not None:
            c.file_closed = True
            c.close_order.append('file.close')
            S.event('file.close', c.id, S.me().id)
        self.sock.io_refs -= 1
        self.sock._maybe_release()
        S.effect()

    def readable(self):
        return True


class VNet(object):
    def __init__(self, S, eager=True, hold=False, seg=None,
                 send_after_close='ok_once', eof_read_limit=64):
        self.S = S
        S.net = self
        self.eager = eager            # server reacts inside send()
        self.hold = hold              # server output waits for deliver()
        self.seg = seg                # read segmentation policy
        self.send_after_close = send_after_close
        self.eof_read_limit = eof_read_limit
        self.endpoints = {}
        self.default = None
        self.conns = []
        self.fds = {}
        self._fd = 100
        self.clock = 1000.0
        self.refused = 0
        self.select_calls = 0

    def new_fd(self, sock):
        self._fd += 1
        self.fds[self._fd] = sock
        return self._fd

    def listen(self, host, port, factory):
        """factory(conn) -> server object | None; or the string 'refuse'."""
        self.endpoints[(host, port)] = factory

    def feed(self, c):
        """Show the server what the client sent since last time."""
        srv = c.server
        if srv is None:
            return False
        new = c.sends[c.fed:]
        gone = c.client_gone
        if not new and not (gone and not getattr(srv, 'saw_gone', False)):
            return False
        c.fed = len(c.sends)
        if new and hasattr(srv, 'on_sends'):
            srv.on_sends(c, new)
        elif new and hasattr(srv, 'on_data'):
            srv.on_data(c, b''.join(e[1] for e in new))
        if gone and not getattr(srv, 'saw_gone', False):
            srv.saw_gone = True
            if hasattr(srv, 'on_client_gone'):
                srv.on_client_gone(c)
        return True

    def pump(self, limit=None):
        """Driver, at quiescence: let servers react and deliver held output.
        -> True if anything happened."""
        progressed = False
        for c in list(self.conns):
            if self.feed(c):
                progressed = True
        for c in list(self.conns):
            if c.deliver(limit):
                progressed = True
                if limit is not None:
                    break
        return progressed

    def settle(self, limit=None, max_rounds=100000):
        """Alternate quiescence and pump until nothing moves."""
        for _ in range(max_rounds):
            self.S.wait_quiescent()
            if not self.pump(limit):
                return
        raise ToolError('settle: no fixpoint after %d rounds' % max_rounds)

    # -- the module-level seams ---------------------------------------------
    def select(self, rlist, wlist, xlist, timeout=None):
        S = self.S
        if wlist or xlist or len(rlist) != 1:
            raise ToolError('vnet.select models one readable only')
        S.point('select')
        self.select_calls += 1
        stream = rlist[0]
        fd = stream.fileno()
        if not isinstance(fd, int) or fd < 0:
            raise ValueError('file descriptor cannot be a negative integer '
                             '(%r)' % (fd,))
        sock = self.fds[fd]
        c = sock.conn
        me = S.me()
        while True:
            if c is None or c.readable():
                return ([stream], [], [])
            if timeout is None:
                S.block_until(c.readable, 'read')
                continue
            self.clock += timeout
            if me.fruitless_epoch == S.epoch:
                S.park('idle-select')
                if c.readable():
                    return ([stream], [], [])
            me.fruitless_epoch = S.epoch
            S.point('select.idle')
            return ([], [], [])

    def default_timer(self):
        self.clock += 0.001
        return self.clock


def _net():
    return pysched.cur().net


class _SocketModule(object):
    AF_INET, AF_INET6, SOCK_STREAM = AF_INET, AF_INET6, SOCK_STREAM
    SHUT_RD, SHUT_WR, SHUT_RDWR = SHUT_RD, SHUT_WR, SHUT_RDWR
    error = OSError
    timeout = TimeoutError

    class gaierror(OSError):
        pass

    @staticmethod
    def getaddrinfo(host, port, family=0, type=0, proto=0, flags=0):
        net = _net()
        net.S.point('getaddrinfo')
        if net.resolve is not None:
            return net.resolve(host, port)
        return [(AF_INET, SOCK_STREAM, 6, '', (host, port))]

    @staticmethod
    def socket(family=AF_INET, type=SOCK_STREAM, proto=0):
        return VSocket(_net(), family, type, proto)


VNet.resolve = None


class _SelectModule(object):
    error = OSError

    @staticmethod
    def select(r, w, x, timeout=None):
        return _net().select(r, w, x, timeout)


class _TimeitModule(object):
    @staticmethod
    def default_timer():
        return _net().default_timer()


class _TimeModule(object):
    """Stand-in for the 'time' module if the tree under test uses it in
    connection.py (the pinned tree does not): time() is a wall clock and may
    step backwards (NTP), the monotonic clocks may not."""
    _calls = [0]

    @staticmethod
    def time():
        net = _net()
        _TimeModule._calls[0] += 1
        net.clock += 0.001
        # every second reading the wall clock has been set back by 5 s
        return 1.6e9 + net.clock - (5.0 if _TimeModule._calls[0] % 2 == 0
                                    else 0.0)

    @staticmethod
    def monotonic():
        return _net().default_timer()

    perf_counter = monotonic

    @staticmethod
    def sleep(t):
        _net().clock += t


_INSTALLED = [False]


def install(conn_module):
    if _INSTALLED[0]:
        return
    conn_module.socket = _SocketModule
    conn_module.select = _SelectModule
    conn_module.timeit = _TimeitModule
    import types
    if isinstance(getattr(conn_module, 'time', None), types.ModuleType):
        conn_module.time = _TimeModule
    _INSTALLED[0] = True
