"""Release table: packet ids (and, for C07, layouts) of the core packet set
for every release protocol the README lists, transcribed from the protocol
documentation (wiki.vg 'Protocol' page history / 'Protocol version numbers').
Shares nothing with pyCraft.

Releases: 47 = 1.8.x; 107 = 1.9; 108 = 1.9.1; 109 = 1.9.2; 110 = 1.9.3/4;
210 = 1.10.x; 315 = 1.11; 316 = 1.11.1/2; 335 = 1.12; 338 = 1.12.1;
340 = 1.12.2; 393 = 1.13; 401 = 1.13.1; 404 = 1.13.2; 477 = 1.14; 480, 485,
490, 498 = 1.14.1-4; 573, 575, 578 = 1.15.x; 735 = 1.16; 736 = 1.16.1;
751 = 1.16.2; 753 = 1.16.3; 754 = 1.16.4/5; 755 = 1.17; 756 = 1.17.1;
757 = 1.18/1.18.1.
"""

RELEASES = [47, 107, 108, 109, 110, 210, 315, 316, 335, 338, 340, 393, 401,
            404, 477, 480, 485, 490, 498, 573, 575, 578, 735, 736, 751, 753,
            754, 755, 756, 757]

# era -> releases sharing one id table for the core set
ERAS = {
    '1.8':    [47],
    '1.9':    [107, 108, 109, 110, 210, 315, 316],
    '1.12':   [335],
    '1.12.1': [338, 340],
    '1.13':   [393, 401, 404],
    '1.14':   [477, 480, 485, 490, 498],
    '1.15':   [573, 575, 578],
    '1.16':   [735, 736],
    '1.16.2': [751, 753, 754],
    '1.17':   [755, 756, 757],
}

# clientbound play
CB_PLAY = {
    #           keep  join  chat  ppl   disconnect
    '1.8':    (0x00, 0x01, 0x02, 0x08, 0x40),
    '1.9':    (0x1F, 0x23, 0x0F, 0x2E, 0x1A),
    '1.12':   (0x1F, 0x23, 0x0F, 0x2E, 0x1A),
    '1.12.1': (0x1F, 0x23, 0x0F, 0x2F, 0x1A),
    '1.13':   (0x21, 0x25, 0x0E, 0x32, 0x1B),
    '1.14':   (0x20, 0x25, 0x0E, 0x35, 0x1A),
    '1.15':   (0x21, 0x26, 0x0F, 0x36, 0x1B),
    '1.16':   (0x20, 0x25, 0x0E, 0x35, 0x1A),
    '1.16.2': (0x1F, 0x24, 0x0E, 0x34, 0x19),
    '1.17':   (0x21, 0x26, 0x0F, 0x38, 0x1A),
}

# serverbound play
SB_PLAY = {
    #           teleport keep  chat  position+look
    '1.8':    (None, 0x00, 0x01, 0x06),
    '1.9':    (0x00, 0x0B, 0x02, 0x0D),
    '1.12':   (0x00, 0x0C, 0x03, 0x0F),
    '1.12.1': (0x00, 0x0B, 0x02, 0x0E),
    '1.13':   (0x00, 0x0E, 0x02, 0x11),
    '1.14':   (0x00, 0x0F, 0x03, 0x12),
    '1.15':   (0x00, 0x0F, 0x03, 0x12),
    '1.16':   (0x00, 0x10, 0x03, 0x13),
    '1.16.2': (0x00, 0x10, 0x03, 0x13),
    '1.17':   (0x00, 0x0F, 0x03, 0x12),
}

ERA_OF = {v: era for era, vs in ERAS.items() for v in vs}


def ids(version):
    """name -> id for one release protocol number."""
    era = ERA_OF[version]
    keep, join, chat, ppl, disc = CB_PLAY[era]
    tp, skeep, schat, sppl = SB_PLAY[era]
    t = {
        'sb.handshake': 0x00,
        'sb.status.request': 0x00, 'sb.status.ping': 0x01,
        'status.response': 0x00, 'status.pong': 0x01,
        'sb.login.start': 0x00, 'sb.login.encryption_response': 0x01,
        'login.disconnect': 0x00, 'login.encryption_request': 0x01,
        'login.success': 0x02, 'login.set_compression': 0x03,
        'play.keep_alive': keep, 'play.join_game': join, 'play.chat': chat,
        'play.position_and_look': ppl, 'play.disconnect': disc,
        'sb.play.keep_alive': skeep, 'sb.play.chat': schat,
        'sb.play.position_and_look': sppl,
    }
    if tp is not None:
        t['sb.play.teleport_confirm'] = tp
    if version >= 393:
        t['login.plugin_request'] = 0x04
        t['sb.login.plugin_response'] = 0x02
    if version == 47:
        t['play.set_compression'] = 0x46
    return t


def selftest():
    assert sorted(ERA_OF) == sorted(RELEASES)
    for v in RELEASES:
        t = ids(v)
        cb = [t[k] for k in t if k.startswith('play.')]
        assert len(cb) == len(set(cb)), v
        sb = [t[k] for k in t if k.startswith('sb.play.')]
        assert len(sb) == len(set(sb)), v
    return True
