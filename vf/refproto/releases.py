"""Release table: packet ids (and, for C07, layouts) of the core packet set
for every release protocol the README lists, transcribed from the protocol
documentation (wiki.vg 'Protocol' page history / 'Protocol version numbers').
Shares nothing with pyCraft.

Releases: 47 = 1.8.x; 107 = 1.9; 108 = 1.9.1; 109 = 1.9.2; 110 = 1.9.3/4;
210 = 1.10.x; 315 = 1.11; 316 = 1.11.1/2; 335 = 1.12; 338 = 1.12.1;
340 = 1.12.2; 393 = 1.13; 401 = 1.13.1; 404 = 1.13.2; 477 = 1.14; 480, 485,
490, 498 = 1.14.1-4; 573, 575, 578 = 1.15.x; 735 = 1.16; 736 = 1.16.1;
751 = 1.16.2; 753 = 1.16.3; 754 = 1.16.4/5; 755 = 1.17; 756 = 1.17.1;
757 = 1.18/1.18.1.
"""
from . import codec, framing

RELEASES = [47, 107, 108, 109, 110, 210, 315, 316, 335, 338, 340, 393, 401,
            404, 477, 480, 485, 490, 498, 573, 575, 578, 735, 736, 751, 753,
            754, 755, 756, 757]

# era -> releases sharing one id table for the core set
ERAS = {
    '1.8':    [47],
    '1.9':    [107, 108, 109, 110, 210, 315, 316],
    '1.12':   [335],
    '1.12.1': [338, 340],
    '1.13':   [393, 401, 404],
    '1.14':   [477, 480, 485, 490, 498],
    '1.15':   [573, 575, 578],
    '1.16':   [735, 736],
    '1.16.2': [751, 753, 754],
    '1.17':   [755, 756, 757],
}

# clientbound play
CB_PLAY = {
    #           keep  join  chat  ppl   disconnect
    '1.8':    (0x00, 0x01, 0x02, 0x08, 0x40),
    '1.9':    (0x1F, 0x23, 0x0F, 0x2E, 0x1A),
    '1.12':   (0x1F, 0x23, 0x0F, 0x2E, 0x1A),
    '1.12.1': (0x1F, 0x23, 0x0F, 0x2F, 0x1A),
    '1.13':   (0x21, 0x25, 0x0E, 0x32, 0x1B),
    '1.14':   (0x20, 0x25, 0x0E, 0x35, 0x1A),
    '1.15':   (0x21, 0x26, 0x0F, 0x36, 0x1B),
    '1.16':   (0x20, 0x25, 0x0E, 0x35, 0x1A),
    '1.16.2': (0x1F, 0x24, 0x0E, 0x34, 0x19),
    '1.17':   (0x21, 0x26, 0x0F, 0x38, 0x1A),
}

# serverbound play
SB_PLAY = {
    #           teleport keep  chat  position+look
    '1.8':    (None, 0x00, 0x01, 0x06),
    '1.9':    (0x00, 0x0B, 0x02, 0x0D),
    '1.12':   (0x00, 0x0C, 0x03, 0x0F),
    '1.12.1': (0x00, 0x0B, 0x02, 0x0E),
    '1.13':   (0x00, 0x0E, 0x02, 0x11),
    '1.14':   (0x00, 0x0F, 0x03, 0x12),
    '1.15':   (0x00, 0x0F, 0x03, 0x12),
    '1.16':   (0x00, 0x10, 0x03, 0x13),
    '1.16.2': (0x00, 0x10, 0x03, 0x13),
    '1.17':   (0x00, 0x0F, 0x03, 0x12),
}

ERA_OF = {v: era for era, vs in ERAS.items() for v in vs}


def ids(version):
    """name -> id for one release protocol number."""
    era = ERA_OF[version]
    keep, join, chat, ppl, disc = CB_PLAY[era]
    tp, skeep, schat, sppl = SB_PLAY[era]
    t = {
        'sb.handshake': 0x00,
        'sb.status.request': 0x00, 'sb.status.ping': 0x01,
        'status.response': 0x00, 'status.pong': 0x01,
        'sb.login.start': 0x00, 'sb.login.encryption_response': 0x01,
        'login.disconnect': 0x00, 'login.encryption_request': 0x01,
        'login.success': 0x02, 'login.set_compression': 0x03,
        'play.keep_alive': keep, 'play.join_game': join, 'play.chat': chat,
        'play.position_and_look': ppl, 'play.disconnect': disc,
        'sb.play.keep_alive': skeep, 'sb.play.chat': schat,
        'sb.play.position_and_look': sppl,
    }
    if tp is not None:
        t['sb.play.teleport_confirm'] = tp
    if version >= 393:
        t['login.plugin_request'] = 0x04
        t['sb.login.plugin_response'] = 0x02
    if version == 47:
        t['play.set_compression'] = 0x46
    return t


# ===========================================================================
# Layouts of the core packet set (C07), transcribed from the protocol
# documentation per release, and an encoder/decoder over them built only from
# vf.refproto.codec primitives.
#
# A layout is a list of (field name, wire type).  Wire types:
#   varint   VarInt (signed 32-bit, two's complement on the wire)
#   ubyte / byte / ushort / int / long      big-endian fixed width
#   float / double                          IEEE-754 big-endian
#   bool                                    one byte 00 / 01
#   string   VarInt byte length + UTF-8 (Identifier and Chat are strings)
#   uuid     16 bytes, most significant first (value: hyphenated hex text)
#   bytes    VarInt length + that many bytes
#   rest     all remaining bytes of the packet
#   strings  VarInt count + that many strings
#   nbt      one named-root TAG_Compound (network NBT before 1.20.2: type byte
#            0a, 2-byte name length, name, entries, 00); value form see nbt()
# ===========================================================================

_STATIC_LAYOUTS = {
    'sb.handshake': [('protocol_version', 'varint'), ('server_address', 'string'),
                     ('server_port', 'ushort'), ('next_state', 'varint')],
    'sb.status.request': [],
    'sb.status.ping': [('payload', 'long')],
    'status.response': [('json', 'string')],
    'status.pong': [('payload', 'long')],
    'sb.login.start': [('name', 'string')],
    'sb.login.encryption_response': [('shared_secret', 'bytes'),
                                     ('verify_token', 'bytes')],
    'login.disconnect': [('reason', 'string')],
    'login.encryption_request': [('server_id', 'string'),
                                 ('public_key', 'bytes'),
                                 ('verify_token', 'bytes')],
    'login.set_compression': [('threshold', 'varint')],
    'login.plugin_request': [('message_id', 'varint'), ('channel', 'string'),
                             ('data', 'rest')],
    # 'data' is present only when 'successful' is true (special-cased below)
    'sb.login.plugin_response': [('message_id', 'varint'),
                                 ('successful', 'bool'), ('data', 'rest')],
    'play.disconnect': [('reason', 'string')],
    'play.set_compression': [('threshold', 'varint')],
    'sb.play.chat': [('message', 'string')],
    'sb.play.position_and_look': [('x', 'double'), ('feet_y', 'double'),
                                  ('z', 'double'), ('yaw', 'float'),
                                  ('pitch', 'float'), ('on_ground', 'bool')],
    'sb.play.teleport_confirm': [('teleport_id', 'varint')],
}


def _join_game(v):
    if v == 47 or v == 107:         # 1.8.x, 1.9
        return [('entity_id', 'int'), ('gamemode', 'ubyte'),
                ('dimension', 'byte'), ('difficulty', 'ubyte'),
                ('max_players', 'ubyte'), ('level_type', 'string'),
                ('reduced_debug_info', 'bool')]
    if v < 477:                     # 1.9.1 .. 1.13.2
        return [('entity_id', 'int'), ('gamemode', 'ubyte'),
                ('dimension', 'int'), ('difficulty', 'ubyte'),
                ('max_players', 'ubyte'), ('level_type', 'string'),
                ('reduced_debug_info', 'bool')]
    if v < 573:                     # 1.14.x
        return [('entity_id', 'int'), ('gamemode', 'ubyte'),
                ('dimension', 'int'), ('max_players', 'ubyte'),
                ('level_type', 'string'), ('view_distance', 'varint'),
                ('reduced_debug_info', 'bool')]
    if v < 735:                     # 1.15.x
        return [('entity_id', 'int'), ('gamemode', 'ubyte'),
                ('dimension', 'int'), ('hashed_seed', 'long'),
                ('max_players', 'ubyte'), ('level_type', 'string'),
                ('view_distance', 'varint'), ('reduced_debug_info', 'bool'),
                ('enable_respawn_screen', 'bool')]
    if v < 751:                     # 1.16, 1.16.1
        return [('entity_id', 'int'), ('gamemode', 'ubyte'),
                ('previous_gamemode', 'ubyte'), ('world_names', 'strings'),
                ('dimension_codec', 'nbt'), ('dimension', 'string'),
                ('world_name', 'string'), ('hashed_seed', 'long'),
                ('max_players', 'ubyte'), ('view_distance', 'varint'),
                ('reduced_debug_info', 'bool'),
                ('enable_respawn_screen', 'bool'), ('is_debug', 'bool'),
                ('is_flat', 'bool')]
    if v < 757:                     # 1.16.2 .. 1.17.1
        return [('entity_id', 'int'), ('is_hardcore', 'bool'),
                ('gamemode', 'ubyte'), ('previous_gamemode', 'byte'),
                ('world_names', 'strings'), ('dimension_codec', 'nbt'),
                ('dimension', 'nbt'), ('world_name', 'string'),
                ('hashed_seed', 'long'), ('max_players', 'varint'),
                ('view_distance', 'varint'), ('reduced_debug_info', 'bool'),
                ('enable_respawn_screen', 'bool'), ('is_debug', 'bool'),
                ('is_flat', 'bool')]
    return [('entity_id', 'int'), ('is_hardcore', 'bool'),      # 1.18
            ('gamemode', 'ubyte'), ('previous_gamemode', 'byte'),
            ('world_names', 'strings'), ('dimension_codec', 'nbt'),
            ('dimension', 'nbt'), ('world_name', 'string'),
            ('hashed_seed', 'long'), ('max_players', 'varint'),
            ('view_distance', 'varint'), ('simulation_distance', 'varint'),
            ('reduced_debug_info', 'bool'),
            ('enable_respawn_screen', 'bool'), ('is_debug', 'bool'),
            ('is_flat', 'bool')]


def layout(name, version):
    """[(field, wire type)] of one core packet in one release, or None when
    the packet does not exist in that release."""
    if version not in ERA_OF:
        raise KeyError(version)
    if name not in ids(version):
        return None
    if name in _STATIC_LAYOUTS:
        return list(_STATIC_LAYOUTS[name])
    v = version
    if name in ('play.keep_alive', 'sb.play.keep_alive'):
        # VarInt up to 1.12.1 (338), Long from 1.12.2 (340)
        return [('keep_alive_id', 'varint' if v <= 338 else 'long')]
    if name == 'login.success':
        # hyphenated text up to 1.15.2 (578), 16 raw bytes from 1.16 (735)
        return [('uuid', 'string' if v <= 578 else 'uuid'),
                ('username', 'string')]
    if name == 'play.chat':
        L = [('json', 'string'), ('position', 'byte')]
        if v >= 735:                # 1.16
            L.append(('sender', 'uuid'))
        return L
    if name == 'play.position_and_look':
        L = [('x', 'double'), ('y', 'double'), ('z', 'double'),
             ('yaw', 'float'), ('pitch', 'float'), ('flags', 'byte')]
        if v >= 107:                # 1.9
            L.append(('teleport_id', 'varint'))
        if v >= 755:                # 1.17
            L.append(('dismount_vehicle', 'bool'))
        return L
    if name == 'play.join_game':
        return _join_game(v)
    raise KeyError(name)


# 'absent' entries: core packets that, beyond doubt, do not exist in a release
#   play Set Compression (clientbound 0x46) exists in 1.8.x only; from 1.9 on
#     compression is negotiated in the login state alone and 0x46 is another
#     packet (Update Sign in 1.9);
#   Teleport Confirm (serverbound) was introduced in 1.9 together with the
#     teleport id of the clientbound Player Position And Look;
#   Login Plugin Request / Response were introduced in 1.13.
def absent(version):
    """Core packet names documented NOT to exist in this release."""
    if version not in ERA_OF:
        raise KeyError(version)
    out = []
    if version >= 107:
        out.append('play.set_compression')
    if version == 47:
        out.append('sb.play.teleport_confirm')
    if version < 393:
        out += ['login.plugin_request', 'sb.login.plugin_response']
    return out


# what this table deliberately leaves unjudged (reported in C07's evidence)
NOT_JUDGED = [
    'numeric interpretation of VarInt fields (signed vs 2^32-wrapped): only '
    'the bytes are part of the layout; signedness is the subject of C02/C03',
    'signedness of Join Game "previous gamemode" (documented Unsigned Byte in '
    '1.16/1.16.1, Byte with -1 = none from 1.16.2): one byte either way',
    'semantic range limits (string length caps, enum ranges): not layout',
    'absence of a packet from a release other than the three documented '
    'removals/introductions listed by absent(): play Set Compression after '
    '1.8, Teleport Confirm before 1.9, login plugin messages before 1.13',
    'NBT inside Join Game: only TAG_Byte/Short/Int/Long/Float/Double/String/'
    'List/Compound with BMP names; the real dimension codec content is not '
    'transcribed',
]


# -- tiny NBT (hand encoder) --------------------------------------------------
# value form (lists or tuples, so that it survives JSON):
#   (kind, n)   kind in byte/short/int/long       (kind, x)  float/double
#   ('string', s)
#   ('list', element kind, [items])   items are bare payloads: numbers, str,
#                                     or entry lists when element kind is
#                                     'compound' (lists of lists not supported)
#   ('compound', [(name, value), ...])            entry order is wire order

_NBT_ID = {'end': 0, 'byte': 1, 'short': 2, 'int': 3, 'long': 4, 'float': 5,
           'double': 6, 'string': 8, 'list': 9, 'compound': 10}
_NBT_KIND = {i: k for k, i in _NBT_ID.items()}
_NBT_INT = {'byte': 1, 'short': 2, 'int': 4, 'long': 8}


def _nbt_str(s):
    for ch in s:            # modified UTF-8 == UTF-8 on U+0001..U+FFFF
        if not 0 < ord(ch) < 0x10000:
            raise ValueError('outside the judged NBT string subset')
    raw = codec.utf8(s)
    return codec.uint(len(raw), 2) + raw


def _nbt_bare(kind, p):
    """payload bytes of a bare payload p of the given kind"""
    if kind in _NBT_INT:
        return codec.sint(p, _NBT_INT[kind])
    if kind == 'float':
        return codec.f32(p)
    if kind == 'double':
        return codec.f64(p)
    if kind == 'string':
        return _nbt_str(p)
    if kind == 'compound':
        out = b''
        for name, v in p:
            out += codec.uint(_NBT_ID[v[0]], 1) + _nbt_str(name) + \
                _nbt_value(v)
        return out + b'\x00'
    raise KeyError(kind)


def _nbt_value(v):
    """payload bytes of a (kind, ...) value"""
    if v[0] == 'list':
        ekind, items = v[1], v[2]
        if ekind == 'list':
            raise KeyError('list of lists')
        return (codec.uint(_NBT_ID[ekind], 1) + codec.sint(len(items), 4) +
                b''.join(_nbt_bare(ekind, it) for it in items))
    return _nbt_bare(v[0], v[1])


def nbt(value, root_name=''):
    """Network NBT (named root) of a ('compound', entries) value."""
    if value[0] != 'compound':
        raise ValueError('root must be a compound')
    return b'\x0a' + _nbt_str(root_name) + _nbt_value(value)


def _nbt_read_str(r):
    return r.take(r.uint(2)).decode('utf-8')


def _nbt_read_bare(r, kind):
    if kind in _NBT_INT:
        return r.sint(_NBT_INT[kind])
    if kind == 'float':
        return r.f32()
    if kind == 'double':
        return r.f64()
    if kind == 'string':
        return _nbt_read_str(r)
    if kind == 'compound':
        out = []
        while True:
            t = r.uint(1)
            if t == 0:
                return out
            k = _NBT_KIND[t]
            name = _nbt_read_str(r)
            out.append((name, _nbt_read_value(r, k)))
    raise KeyError(kind)


def _nbt_read_value(r, kind):
    if kind == 'list':
        ekind = _NBT_KIND[r.uint(1)]
        n = r.sint(4)
        if ekind == 'list':
            raise KeyError('list of lists')
        return ('list', ekind, [_nbt_read_bare(r, ekind) for _ in range(n)])
    return (kind, _nbt_read_bare(r, kind))


def read_nbt(r):
    """-> (root name, ('compound', entries))"""
    if r.uint(1) != 0x0a:
        raise codec.Malformed('NBT root is not a compound')
    name = _nbt_read_str(r)
    return name, _nbt_read_value(r, 'compound')


def nbt_canon(v):
    """Nested tuples (for comparing values that may have been through JSON)."""
    if v[0] == 'list':
        if v[1] == 'compound':
            return ('list', 'compound', tuple(
                tuple((n, nbt_canon(x)) for n, x in it) for it in v[2]))
        return ('list', v[1], tuple(v[2]))
    if v[0] == 'compound':
        return ('compound', tuple((n, nbt_canon(x)) for n, x in v[1]))
    return (v[0], v[1])


# -- field codec ----------------------------------------------------------------

_LONG_STRINGS = {}


def string_field(s):
    """codec.string(s); the result for a long string (the UTF-8 encoder of
    codec is written out by hand and slow) is remembered."""
    if len(s) < 1024:
        return codec.string(s)
    out = _LONG_STRINGS.get(s)
    if out is None:
        if len(_LONG_STRINGS) >= 64:
            _LONG_STRINGS.clear()
        out = _LONG_STRINGS[s] = codec.string(s)
    return out


def enc_field(typ, v):
    if typ == 'varint':
        return codec.varint_signed(_s32(v))
    if typ == 'ubyte':
        return codec.uint(v, 1)
    if typ == 'byte':
        return codec.sint(v, 1)
    if typ == 'ushort':
        return codec.uint(v, 2)
    if typ == 'int':
        return codec.sint(v, 4)
    if typ == 'long':
        return codec.sint(v, 8)
    if typ == 'float':
        return codec.f32(v)
    if typ == 'double':
        return codec.f64(v)
    if typ == 'bool':
        if v is not True and v is not False:
            raise TypeError(v)
        return codec.boolean(v)
    if typ == 'string':
        return string_field(v)
    if typ == 'uuid':
        return codec.uuid_bytes(v)
    if typ == 'bytes':
        return codec.var_bytes(v)
    if typ == 'rest':
        return bytes(v)
    if typ == 'strings':
        return codec.varnum(len(v)) + b''.join(codec.string(s) for s in v)
    if typ == 'nbt':
        return nbt(v)
    raise KeyError(typ)


def _s32(v):
    if not -(1 << 31) <= v < (1 << 31):
        raise OverflowError(v)
    return v


def dec_field(typ, r):
    if typ == 'varint':
        n = r.varnum(5)
        if n >= 1 << 32:
            raise codec.Malformed('VarInt over 32 bits')
        return n - (1 << 32) if n >> 31 else n
    if typ == 'ubyte':
        return r.uint(1)
    if typ == 'byte':
        return r.sint(1)
    if typ == 'ushort':
        return r.uint(2)
    if typ == 'int':
        return r.sint(4)
    if typ == 'long':
        return r.sint(8)
    if typ == 'float':
        return r.f32()
    if typ == 'double':
        return r.f64()
    if typ == 'bool':
        b = r.take(1)
        if b not in (b'\x00', b'\x01'):
            raise codec.Malformed('boolean byte %r' % b)
        return b == b'\x01'
    if typ == 'string':
        return r.string()
    if typ == 'uuid':
        return r.uuid()
    if typ == 'bytes':
        return r.var_bytes()
    if typ == 'rest':
        return r.rest()
    if typ == 'strings':
        return [r.string() for _ in range(r.varnum(5))]
    if typ == 'nbt':
        name, v = read_nbt(r)
        if name != '':
            raise codec.Malformed('NBT root name %r' % name)
        return v
    raise KeyError(typ)


def encode(name, version, values):
    """Payload bytes (without id) of one core packet.  values: field -> value;
    every field of the layout must be given (and nothing else)."""
    L = layout(name, version)
    if L is None:
        raise KeyError('%s does not exist in %d' % (name, version))
    if name == 'sb.login.plugin_response' and not values['successful']:
        if values.get('data') is not None:
            raise ValueError('data without successful')
        L = L[:2]
        values = {k: values[k] for k in ('message_id', 'successful')}
    if sorted(values) != sorted(f for f, _ in L):
        raise KeyError('fields %r, layout %r' % (sorted(values), L))
    return b''.join(enc_field(t, values[f]) for f, t in L)


def decode(name, version, payload):
    """Inverse of encode; the payload must be consumed exactly."""
    L = layout(name, version)
    r = codec.Reader(payload)
    out = {}
    for f, t in L:
        if name == 'sb.login.plugin_response' and f == 'data' and \
                not out['successful']:
            out[f] = None
            continue
        out[f] = dec_field(t, r)
    if r.left:
        raise codec.Malformed('%d bytes left over' % r.left)
    return out


def packet_frame(name, version, values):
    """Uncompressed frame: VarInt length, VarInt id, payload."""
    return framing.frame(ids(version)[name], encode(name, version, values))


def selftest():
    assert sorted(ERA_OF) == sorted(RELEASES)
    for v in RELEASES:
        t = ids(v)
        cb = [t[k] for k in t if k.startswith('play.')]
        assert len(cb) == len(set(cb)), v
        sb = [t[k] for k in t if k.startswith('sb.play.')]
        assert len(sb) == len(set(sb)), v
    _selftest_layouts()
    return True


def _selftest_layouts():
    # hand-assembled vectors
    assert packet_frame('sb.handshake', 47, {
        'protocol_version': 47, 'server_address': 'localhost',
        'server_port': 25565, 'next_state': 2}) == \
        bytes.fromhex('0f 00 2f 09') + b'localhost' + bytes.fromhex('63dd 02')
    assert packet_frame('sb.status.request', 757, {}) == b'\x01\x00'
    assert packet_frame('play.keep_alive', 338, {'keep_alive_id': 300}) == \
        bytes.fromhex('03 1f ac02')
    assert packet_frame('play.keep_alive', 340, {'keep_alive_id': -2}) == \
        bytes.fromhex('09 1f fffffffffffffffe')
    assert packet_frame('sb.play.keep_alive', 47, {'keep_alive_id': -1}) == \
        bytes.fromhex('06 00 ffffffff0f')
    assert encode('login.success', 578, {
        'uuid': '01234567-89ab-cdef-0123-456789abcdef', 'username': 'ab'}) \
        == b'\x24' + b'01234567-89ab-cdef-0123-456789abcdef' + b'\x02ab'
    assert encode('login.success', 735, {
        'uuid': '01234567-89ab-cdef-0123-456789abcdef', 'username': 'ab'}) \
        == bytes.fromhex('0123456789abcdef0123456789abcdef') + b'\x02ab'
    assert encode('play.position_and_look', 47, {
        'x': 1.0, 'y': -2.0, 'z': 0.5, 'yaw': 90.0, 'pitch': -45.0,
        'flags': 0x1f}) == bytes.fromhex(
        '3ff0000000000000 c000000000000000 3fe0000000000000 '
        '42b40000 c2340000 1f')
    assert encode('play.position_and_look', 755, {
        'x': 0.0, 'y': 0.0, 'z': 0.0, 'yaw': 0.0, 'pitch': 0.0, 'flags': 0,
        'teleport_id': 128, 'dismount_vehicle': True})[-3:] == b'\x80\x01\x01'
    assert nbt(('compound', [])) == bytes.fromhex('0a 0000 00')
    assert nbt(('compound', [('a', ('int', 5))])) == \
        bytes.fromhex('0a 0000 03 0001 61 00000005 00')
    assert nbt(('compound', [('l', ('list', 'string', ['x', 'yz']))])) == \
        bytes.fromhex('0a0000 09 0001 6c 08 00000002 0001 78 0002 797a 00')
    assert encode('play.join_game', 47, {
        'entity_id': 1, 'gamemode': 9, 'dimension': -1, 'difficulty': 2,
        'max_players': 20, 'level_type': 'flat',
        'reduced_debug_info': False}) == \
        bytes.fromhex('00000001 09 ff 02 14 04') + b'flat' + b'\x00'
    # a string of 10923 three-byte characters: 32769 bytes, prefix 81 80 02
    big = '\u4e2d' * 10923
    for _ in range(2):      # second time from the memo
        enc = encode('play.disconnect', 47, {'reason': big})
        assert enc[:3] == bytes.fromhex('818002') and len(enc) == 32772
        assert enc[3:] == bytes.fromhex('e4b8ad') * 10923
        assert enc == codec.string(big)
    assert decode('play.disconnect', 47, enc) == {'reason': big}
    assert encode('sb.login.plugin_response', 404, {
        'message_id': 7, 'successful': False, 'data': None}) == b'\x07\x00'
    assert encode('sb.login.plugin_response', 404, {
        'message_id': 7, 'successful': True, 'data': b'xy'}) == b'\x07\x01xy'
    # every layout round-trips through the reference decoder
    deep = ('compound', [
        ('b', ('byte', -1)), ('s', ('short', 300)), ('i', ('int', -5)),
        ('l', ('long', 1 << 40)), ('f', ('float', 0.5)),
        ('d', ('double', 0.1)), ('t', ('string', 'h\u00e9')),
        ('c', ('compound', [('x', ('int', 1))])),
        ('n', ('list', 'int', [1, 2, 3])),
        ('m', ('list', 'compound', [[('k', ('string', 'v'))], []]))])
    wit = {'varint': 300, 'ubyte': 200, 'byte': -3, 'ushort': 40000,
           'int': -70000, 'long': -(1 << 40), 'float': 1.5, 'double': 0.1,
           'bool': True, 'string': 'h\u00e9llo', 'bytes': b'\x00\x01\x02',
           'uuid': '01234567-89ab-cdef-0123-456789abcdef', 'rest': b'\xff\x00',
           'strings': ['a', 'b\u20ac'], 'nbt': deep}
    names = set()
    for v in RELEASES:
        for name in ids(v):
            L = layout(name, v)
            assert L is not None, (name, v)
            names.add(name)
            vals = {f: wit[t] for f, t in L}
            back = decode(name, v, encode(name, v, vals))
            for f, t in L:
                if t == 'nbt':
                    assert nbt_canon(back[f]) == nbt_canon(vals[f]), (name, v)
                else:
                    assert back[f] == vals[f], (name, v, f)
    assert layout('sb.play.teleport_confirm', 47) is None
    every = set(n for v in RELEASES for n in ids(v))
    for v in RELEASES:      # each core name is either present or absent
        assert not set(absent(v)) & set(ids(v)), v
        assert set(absent(v)) | set(ids(v)) == every, v
    assert absent(47) == ['sb.play.teleport_confirm', 'login.plugin_request',
                          'sb.login.plugin_response']
    assert absent(107) == ['play.set_compression', 'login.plugin_request',
                           'sb.login.plugin_response']
    assert absent(340) == absent(107) and absent(393) == absent(757) == \
        ['play.set_compression']
    assert layout('login.plugin_request', 340) is None
    assert len(names) == 23, sorted(names)
    return True
