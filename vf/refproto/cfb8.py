"""AES-128-CFB8 built by hand as a shift register over single-block AES.

Only the block primitive (AES-ECB of one 16-byte block) comes from the
'cryptography' package; the mode logic is ours.  Self-checked against the
NIST SP 800-38A F.3.7 (CFB8-AES128) vector.
"""
from cryptography.hazmat.primitives.ciphers import Cipher, algorithms, modes


class CFB8(object):
    def __init__(self, key, iv=None):
        iv = key if iv is None else iv
        assert len(key) == 16 and len(iv) == 16
        self._ecb = Cipher(algorithms.AES(bytes(key)), modes.ECB()).encryptor()
        self.reg = bytearray(iv)

    def _ks(self):
        return self._ecb.update(bytes(self.reg))[0]

    def encrypt(self, data):
        out = bytearray()
        for p in data:
            c = p ^ self._ks()
            self.reg = self.reg[1:] + bytes([c])
            out.append(c)
        return bytes(out)

    def decrypt(self, data):
        out = bytearray()
        for c in data:
            p = c ^ self._ks()
            self.reg = self.reg[1:] + bytes([c])
            out.append(p)
        return bytes(out)


def selftest():
    key = bytes.fromhex('2b7e151628aed2a6abf7158809cf4f3c')
    iv = bytes.fromhex('000102030405060708090a0b0c0d0e0f')
    pt = bytes.fromhex('6bc1bee22e409f96e93d7e117393172aae2d')
    ct = bytes.fromhex('3b79424c9c0dd436bace9e0ed4586a4f32b9')
    assert CFB8(key, iv).encrypt(pt) == ct
    assert CFB8(key, iv).decrypt(ct) == pt
    e = CFB8(key, iv)
    assert e.encrypt(pt[:5]) + e.encrypt(pt[5:]) == ct
    return True
