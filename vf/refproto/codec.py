"""Reference wire codec, written from the protocol documentation.

Imports nothing from pyCraft and does not use ``struct``: integers go through
int.to_bytes, IEEE-754 values are assembled bit by bit.  Every encoder returns
bytes; every decoder is a method of Reader (a cursor over bytes) and raises
Short when the input ends early.
"""
import math


class Short(Exception):
    """Input ended inside a value."""


class Malformed(Exception):
    pass


# -- integers --------------------------------------------------------------

def uint(n, width):
    if not 0 <= n < (1 << (8 * width)):
        raise OverflowError(n)
    return n.to_bytes(width, 'big')


def sint(n, width):
    lo = -(1 << (8 * width - 1))
    if not lo <= n < -lo:
        raise OverflowError(n)
    return (n & ((1 << (8 * width)) - 1)).to_bytes(width, 'big')


def boolean(b):
    return b'\x01' if b else b'\x00'


def varnum(n):
    """Canonical little-endian base-128 of a non-negative integer."""
    if n < 0:
        raise OverflowError(n)
    out = bytearray()
    while True:
        low = n % 128
        n //= 128
        if n:
            out.append(low + 128)
        else:
            out.append(low)
            return bytes(out)


def varint_signed(n):
    """Protocol VarInt of a signed 32-bit value (two's complement)."""
    return varnum(n % (1 << 32))


def varlong_signed(n):
    return varnum(n % (1 << 64))


def varnum_size(n):
    return len(varnum(n))


# -- IEEE-754 ---------------------------------------------------------------

def _ieee(x, ebits, mbits):
    """Bit pattern of x rounded to nearest-even in the given format."""
    bias = (1 << (ebits - 1)) - 1
    emax = (1 << ebits) - 1
    if x != x:
        return (emax << mbits) | (1 << (mbits - 1))
    sign = 1 if math.copysign(1.0, x) < 0 else 0
    x = abs(x)
    if x == float('inf'):
        return (sign << (ebits + mbits)) | (emax << mbits)
    if x == 0:
        return sign << (ebits + mbits)
    m, e = math.frexp(x)            # x = m * 2**e, 0.5 <= m < 1
    # exact rational arithmetic from here on
    num, den = x.as_integer_ratio()
    exp = e - 1                     # x = 1.f * 2**exp
    if exp < 1 - bias:              # subnormal
        shift = mbits + bias - 1    # value = frac * 2**-(shift)
        q, r = divmod(num << shift, den) if shift >= 0 else (0, 0)
        q = _round_even(q, r, den)
        return (sign << (ebits + mbits)) | q  # may carry into exponent 1: ok
    # normal: frac = (x / 2**exp - 1) * 2**mbits
    if exp >= 0:
        n2, d2 = num, den << exp
    else:
        n2, d2 = num << (-exp), den
    q, r = divmod((n2 - d2) << mbits, d2)
    q = _round_even(q, r, d2)
    bits = ((exp + bias) << mbits) + q      # carry propagates into exponent
    if (bits >> mbits) >= emax:
        bits = emax << mbits                # overflow -> inf
    return (sign << (ebits + mbits)) | bits


def _round_even(q, r, d):
    if 2 * r > d or (2 * r == d and (q & 1)):
        return q + 1
    return q


def f32_bits(x):
    return _ieee(x, 8, 23)


def f64_bits(x):
    return _ieee(x, 11, 52)


def f32(x):
    return f32_bits(x).to_bytes(4, 'big')


def f64(x):
    return f64_bits(x).to_bytes(8, 'big')


def _unieee(bits, ebits, mbits):
    bias = (1 << (ebits - 1)) - 1
    emax = (1 << ebits) - 1
    sign = -1.0 if bits >> (ebits + mbits) else 1.0
    e = (bits >> mbits) & emax
    f = bits & ((1 << mbits) - 1)
    if e == emax:
        return float('nan') if f else sign * float('inf')
    if e == 0:
        return sign * math.ldexp(f, 1 - bias - mbits)
    return sign * math.ldexp((1 << mbits) | f, e - bias - mbits)


def bits_f32(bits):
    return _unieee(bits, 8, 23)


def bits_f64(bits):
    return _unieee(bits, 11, 52)


# -- composite ---------------------------------------------------------------

def string(s):
    raw = utf8(s)
    return varnum(len(raw)) + raw


def utf8(s):
    """UTF-8 by hand (no str.encode): 1-4 byte forms."""
    out = bytearray()
    for ch in s:
        c = ord(ch)
        if c < 0x80:
            out.append(c)
        elif c < 0x800:
            out += bytes((0xC0 | c >> 6, 0x80 | c & 0x3F))
        elif c < 0x10000:
            out += bytes((0xE0 | c >> 12, 0x80 | (c >> 6) & 0x3F,
                          0x80 | c & 0x3F))
        else:
            out += bytes((0xF0 | c >> 18, 0x80 | (c >> 12) & 0x3F,
                          0x80 | (c >> 6) & 0x3F, 0x80 | c & 0x3F))
    return bytes(out)


def uuid_bytes(text):
    hexd = text.replace('-', '')
    if len(hexd) != 32:
        raise Malformed(text)
    return bytes(int(hexd[i:i + 2], 16) for i in range(0, 32, 2))


def uuid_text(raw):
    h = ''.join('%02x' % b for b in raw)
    return '-'.join((h[0:8], h[8:12], h[12:16], h[16:20], h[20:32]))


def angle_byte(deg):
    """1/256-turn steps; nearest step, a full turn wraps to 0."""
    return int(math.floor(deg * 256.0 / 360.0 + 0.5)) % 256


def fixed_raw(value, frac_bits):
    """Truncation toward zero, as the vanilla server's (int)(x * 2^n)."""
    return int(value * (1 << frac_bits))


def var_bytes(b):
    return varnum(len(b)) + bytes(b)


def short_bytes(b):
    return sint(len(b), 2) + bytes(b)


class Reader(object):
    def __init__(self, data, pos=0):
        self.data, self.pos = bytes(data), pos

    def take(self, n):
        if n < 0 or self.pos + n > len(self.data):
            raise Short('need %d at %d of %d' % (n, self.pos, len(self.data)))
        out = self.data[self.pos:self.pos + n]
        self.pos += n
        return out

    def rest(self):
        out = self.data[self.pos:]
        self.pos = len(self.data)
        return out

    @property
    def left(self):
        return len(self.data) - self.pos

    def uint(self, width):
        return int.from_bytes(self.take(width), 'big')

    def sint(self, width):
        v = self.uint(width)
        return v - (1 << (8 * width)) if v >> (8 * width - 1) else v

    def boolean(self):
        return self.take(1) != b'\x00'

    def varnum(self, max_bytes=5):
        """Unsigned value of a base-128 number of at most max_bytes bytes."""
        n = 0
        for i in range(max_bytes):
            b = self.take(1)[0]
            n |= (b & 0x7F) << (7 * i)
            if b < 0x80:
                return n
        raise Malformed('varnum longer than %d bytes' % max_bytes)

    def f32(self):
        return bits_f32(self.uint(4))

    def f64(self):
        return bits_f64(self.uint(8))

    def string(self):
        n = self.varnum()
        return self.take(n).decode('utf-8')

    def var_bytes(self):
        return self.take(self.varnum())

    def uuid(self):
        return uuid_text(self.take(16))


def selftest():
    assert varnum(0) == b'\x00' and varnum(127) == b'\x7f'
    assert varnum(128) == b'\x80\x01' and varnum(255) == b'\xff\x01'
    assert varnum(25565) == b'\xdd\xc7\x01'
    assert varnum(2097151) == b'\xff\xff\x7f'
    assert varnum(2147483647) == b'\xff\xff\xff\xff\x07'
    assert varint_signed(-1) == b'\xff\xff\xff\xff\x0f'
    assert varint_signed(-2147483648) == b'\x80\x80\x80\x80\x08'
    assert varlong_signed(-1) == b'\xff' * 9 + b'\x01'
    assert f32(1.0) == bytes.fromhex('3f800000')
    assert f32(-2.5) == bytes.fromhex('c0200000')
    assert f64(1.0) == bytes.fromhex('3ff0000000000000')
    assert f64(0.1) == bytes.fromhex('3fb999999999999a')
    assert f32(0.1) == bytes.fromhex('3dcccccd')
    assert f32(1e-45) == bytes.fromhex('00000001')
    assert f32(3.5e38) == bytes.fromhex('7f800000')
    assert f64(5e-324) == bytes.fromhex('0000000000000001')
    assert f64(float('-inf')) == bytes.fromhex('fff0000000000000')
    assert bits_f32(0x3f800000) == 1.0 and bits_f64(0x3fb999999999999a) == 0.1
    assert bits_f32(0x00000001) == math.ldexp(1, -149)
    assert utf8('aé€\U0001f600') == 'aé€\U0001f600'.encode()
    assert uuid_text(uuid_bytes('12345678-1234-5678-1234-567812345678')) == \
        '12345678-1234-5678-1234-567812345678'
    assert angle_byte(0) == 0 and angle_byte(359.9) == 0 and \
        angle_byte(90) == 64 and angle_byte(-90) == 192
    r = Reader(b'\xdd\xc7\x01rest')
    assert r.varnum() == 25565 and r.rest() == b'rest'
    return True


if __name__ == '__main__':
    selftest()
    print('codec selftest ok')
