"""Java BigInteger(digest).toString(16) by explicit two's-complement steps."""
import hashlib

HEX = '0123456789abcdef'


def java_hex(digest):
    """Signed big-endian bytes -> lower-case hex, no leading zeros, '-'."""
    b = bytearray(digest)
    neg = bool(b and b[0] & 0x80)
    if neg:                                  # negate: invert, add one
        for i in range(len(b)):
            b[i] ^= 0xFF
        i = len(b) - 1
        while i >= 0:
            b[i] = (b[i] + 1) & 0xFF
            if b[i]:
                break
            i -= 1
    digits = ''.join(HEX[x >> 4] + HEX[x & 15] for x in b).lstrip('0')
    if not digits:
        return '0'
    return ('-' if neg else '') + digits


def server_hash(server_id, secret, public_key):
    h = hashlib.sha1()
    h.update(server_id.encode('utf-8'))
    h.update(bytes(secret))
    h.update(bytes(public_key))
    return java_hex(h.digest())


def selftest():
    v = {'Notch': '4ed1f46bbe04bc756bcb17c0c7ce3e4632f06a48',
         'jeb_': '-7c9d5b0044c130109a5d7b5fb5c317c02b4e28c1',
         'simon': '88e16a1019277b15d58faf0541e11910eb756f6'}
    for name, want in v.items():
        assert java_hex(hashlib.sha1(name.encode()).digest()) == want, name
    assert java_hex(b'\x00' * 20) == '0'
    assert java_hex(b'\xff' * 20) == '-1'
    assert java_hex(b'\x80' + b'\x00' * 19) == '-8' + '0' * 39
    assert java_hex(b'\x00\x0f' + b'\x00' * 18) == 'f' + '0' * 36
    return True
