"""Reference framing: length-prefixed frames, optional zlib data-length form.

compression: None = framing without a data-length field;
             an int T = the data-length form is in force (threshold T).
"""
import zlib

from . import codec
from .codec import Reader, Short, Malformed


def frame(packet_id, payload, compression=None, force_compress=None,
          level=6, pad_length_prefix=0):
    """Bytes of one frame.  force_compress: None = follow the threshold
    (compress iff len(id+payload) >= threshold, the vanilla rule),
    True/False = override (both are legal on the wire as long as the
    data-length field says which).  pad_length_prefix > 0 writes the outer
    length as a non-canonical, longer VarInt (legal: <= 3 bytes)."""
    body = codec.varnum(packet_id) + bytes(payload)
    if compression is not None:
        do = force_compress
        if do is None:
            do = compression >= 0 and len(body) >= compression
        if do:
            body = codec.varnum(len(body)) + zlib.compress(body, level)
        else:
            body = codec.varnum(0) + body
    return length_prefix(len(body), pad_length_prefix) + body


def length_prefix(n, pad=0):
    raw = bytearray(codec.varnum(n))
    for _ in range(pad):
        raw[-1] |= 0x80
        raw.append(0)
    return bytes(raw)


class Deframer(object):
    """Incremental reader of a frame stream (fed arbitrary chunks)."""

    def __init__(self, compression=None):
        self.buf = bytearray()
        self.compression = compression
        self.frames = []            # (id, payload, was_compressed)
        self.error = None

    def feed(self, data):
        self.buf += data
        while self.error is None:
            r = Reader(bytes(self.buf))
            try:
                n = r.varnum(5)
                body = r.take(n)
            except Short:
                return
            except Malformed as e:
                self.error = 'bad length prefix: %s' % e
                return
            del self.buf[:r.pos]
            try:
                self.frames.append(self.parse_body(body))
            except (Short, Malformed, zlib.error) as e:
                self.error = 'bad frame body: %r' % (e,)

    def parse_body(self, body):
        r = Reader(body)
        compressed = False
        if self.compression is not None:
            dlen = r.varnum(5)
            if dlen:
                raw = zlib.decompress(r.rest())
                if len(raw) != dlen:
                    raise Malformed('data length %d but inflated %d'
                                    % (dlen, len(raw)))
                r = Reader(raw)
                compressed = True
        pid = r.varnum(5)
        return (pid, r.rest(), compressed)

    @property
    def pending(self):
        return len(self.buf)


def deframe_all(data, compression=None):
    d = Deframer(compression)
    d.feed(data)
    return d.frames, d.pending, d.error


def selftest():
    f = frame(0x21, b'abc')
    assert f == b'\x04\x21abc'
    assert deframe_all(f + f) == ([(0x21, b'abc', False)] * 2, 0, None)
    g = frame(0x21, b'a' * 300, compression=256)
    fr, pend, err = deframe_all(g, 256)
    assert fr == [(0x21, b'a' * 300, True)] and not pend and not err
    g = frame(0x21, b'a' * 10, compression=256)
    assert g[:3] == b'\x0c\x00\x21'
    assert deframe_all(g, 256)[0] == [(0x21, b'a' * 10, False)]
    assert length_prefix(3, 2) == b'\x83\x80\x00'
    assert Reader(length_prefix(300, 1)).varnum() == 300
    d = Deframer()
    for b in f + f:
        d.feed(bytes([b]))
    assert len(d.frames) == 2
    return True
