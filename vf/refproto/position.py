"""Reference packings (plain integer arithmetic)."""


def _u(v, bits):
    return v % (1 << bits)


def _s(v, bits):
    v %= 1 << bits
    return v - (1 << bits) if v >= 1 << (bits - 1) else v


def pos_xyz(x, y, z):
    """Layout A (<= 1.13.2): x 26 | y 12 | z 26."""
    return _u(x, 26) * (1 << 38) + _u(y, 12) * (1 << 26) + _u(z, 26)


def pos_xzy(x, y, z):
    """Layout B (>= 1.14): x 26 | z 26 | y 12."""
    return _u(x, 26) * (1 << 38) + _u(z, 26) * (1 << 12) + _u(y, 12)


def unpos_xyz(w):
    return (_s(w >> 38, 26), _s(w >> 26, 12), _s(w, 26))


def unpos_xzy(w):
    return (_s(w >> 38, 26), _s(w, 12), _s(w >> 12, 26))


def section(x, y, z):
    """Chunk section position: x 22 | z 22 | y 20."""
    return _u(x, 22) * (1 << 42) + _u(z, 22) * (1 << 20) + _u(y, 20)


def unsection(w):
    return (_s(w >> 42, 22), _s(w, 20), _s(w >> 20, 22))


def record_new(state, x, y, z):
    """>= 741: VarLong of state << 12 | x << 8 | z << 4 | y."""
    return state * 4096 + (x % 16) * 256 + (z % 16) * 16 + (y % 16)


def record_old(state, x, y, z):
    """< 741: byte (x << 4 | z), byte y, VarInt state."""
    from .codec import varnum
    return bytes([(x % 16) * 16 + (z % 16), y % 256]) + varnum(state)


def selftest():
    # wiki.vg example: x=18357644 y=831 z=-20882616 (layout B)
    w = 0b0100011000000111011000110010110000010101101101001000001100111111
    assert unpos_xzy(w) == (18357644, 831, -20882616)
    assert pos_xzy(18357644, 831, -20882616) == w
    assert unpos_xyz(pos_xyz(-1, -1, -1)) == (-1, -1, -1)
    assert pos_xyz(-1, -1, -1) == (1 << 64) - 1
    assert unsection(section(-3, 5, 7)) == (-3, 5, 7)
    assert unpos_xyz(pos_xyz(2**25 - 1, -2**11, -2**25)) == \
        (2**25 - 1, -2**11, -2**25)
    return True
