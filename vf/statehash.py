"""Canonical form of the whole system state at a scheduling point.

Used by the schedule explorer to recognise a state it has already expanded
(with at least as much preemption budget left) and stop there.  A *wrong*
(too coarse) key would hide behaviours silently, so the key is built to be
over-fine rather than clever:

* every agent: scheduler state and the full Python stack of its thread
  restricted to frames of the tree under test and of the scenario body -
  (function, instruction offset, every local variable);
* every attribute of the root objects (the Connections), by a generic walk
  over vars(obj): a field added by a change is included automatically;
* the virtual network: both pipes of every connection, close/shutdown flags,
  the running hash of everything sent, the reference server's decoding state;
* the running hash of the harness event log (the oracles read it) and
  whatever the scenario adds (results so far).

Objects are abstracted by type: thread -> agent id + interrupt flag, lock ->
(owner, depth), packet -> class + fields, exception -> type + args, function
-> qualified name.  Anything else is expanded through vars() to a bounded
depth; identity (id()) is never part of a key.

Speed: a parked or blocked agent cannot change its own stack, so its stack
part is cached until it passes its next scheduling point (agent.steps).  A
cached part may describe referenced shared objects as they were when the
agent last ran; that only makes keys finer (history-dependent), never
coarser, because the current content of shared objects is always taken fresh
from the roots.
"""
import collections
import sys
import types

from vf import pysched, vnet

_PRIMS = (int, float, str, bytes, bool, type(None))


class Canon(object):
    def __init__(self, repo_root, extra_files=(),
                 outside=('scenario', '<lambda>', 'factory', 'run', 'replay')):
        """extra_files: scenario modules whose frames (scenario body and its
        closures) are part of an agent's state; 'outside' names the functions
        of those modules that sit *below* the body on the driver's stack
        (they hold the explorer's own data, e.g. the visited table)."""
        self.repo_root = repo_root
        self.files = tuple(extra_files)
        self.outside = frozenset(outside)
        self.cache = {}         # (id, depth) -> canon, valid for one state()
        self.stack_cache = {}   # agent id -> (steps, canon of stack)
        self.code_ok = {}

    def frame_ok(self, code):
        ok = self.code_ok.get(code)
        if ok is None:
            fn = code.co_filename
            ok = fn.startswith(self.repo_root) or (
                fn in self.files and code.co_name not in self.outside)
            self.code_ok[code] = ok
        return ok

    def obj(self, x, depth=3):
        t = type(x)
        if t in _PRIMS:
            return x
        ck = (id(x), depth)
        hit = self.cache.get(ck)
        if hit is not None:
            return hit
        out = self._obj(x, t, depth)
        self.cache[ck] = out
        return out

    def _obj(self, x, t, depth):
        obj = self.obj
        if t is tuple or t is list:
            return tuple([obj(v, depth) for v in x])
        if t is dict:
            if x and all(isinstance(v, type) for v in x.values()):
                return ('typemap', len(x))      # id -> class tables: static
            items = [(obj(k, depth), obj(v, depth)) for k, v in x.items()]
            try:
                items.sort(key=lambda kv: kv[0])
            except TypeError:
                items.sort(key=repr)
            return ('dict', tuple(items))
        if t is pysched.CRLock:
            return ('lock', x.owner.id if x.owner is not None else None,
                    x.count)
        if t is pysched.CDeque or t is collections.deque:
            return ('deque', tuple([obj(v, depth) for v in x]))
        if t is bytearray:
            return bytes(x)
        if t is pysched.Agent:
            return ('agent', x.id, x.state)
        if t is vnet.VSocket:
            return ('vsock', x.fd, x.closed)
        if t is vnet.VFile:
            return ('vfile', x.sock.fd, x.closed)
        if t is set or t is frozenset:
            return ('set', tuple(sorted([obj(v, depth) for v in x],
                                        key=repr)))
        if t is types.FunctionType or t is types.MethodType or \
                t is types.BuiltinFunctionType:
            return ('fn', getattr(x, '__qualname__', None))
        if t is types.TracebackType:
            return 'tb'
        if isinstance(x, _PRIMS):               # bool/int/str subclasses
            return (t.__name__, x)
        if isinstance(x, type):
            return ('type', x.__name__)
        if isinstance(x, BaseException):
            return ('exc', t.__name__, obj(x.args, 1))
        if isinstance(x, (list, tuple, collections.deque)):
            return (t.__name__, tuple([obj(v, depth) for v in x]))
        tn = t.__name__
        if tn == 'NetworkingThread':
            a = getattr(x, '_vf_agent', None)
            return ('nt', a.id if a is not None else None,
                    getattr(x, 'interrupt', None),
                    a.state if a is not None else None,
                    obj(getattr(x, 'previous_thread', None), 1)
                    if depth > 1 else None)
        mod = t.__module__ or ''
        if mod.startswith('minecraft.networking.packets') or \
                tn.endswith('Packet'):
            return ('pkt', tn, tuple(sorted(
                [(k, obj(v, 1)) for k, v in vars(x).items()
                 if k != 'context'])))
        if mod.startswith('cryptography'):
            return ('crypto', tn)
        if mod.startswith('vf.') or mod == 'vf':
            return ('vf', tn)           # harness objects are not state
        if depth <= 0:
            return ('obj', tn)
        d = getattr(x, '__dict__', None)
        if d is None:
            slots = getattr(t, '__slots__', ())
            d = {s: getattr(x, s) for s in slots if hasattr(x, s)}
        return ('obj', tn, tuple(sorted(
            [(k, obj(v, depth - 1)) for k, v in d.items()
             if not k.startswith('_vf_')])))

    def stack(self, frame):
        out = []
        obj = self.obj
        while frame is not None:
            code = frame.f_code
            if self.frame_ok(code):
                loc = sorted([(k, obj(v, 1))
                              for k, v in frame.f_locals.items()])
                out.append((code.co_name, frame.f_lasti, tuple(loc)))
            frame = frame.f_back
        return tuple(out)

    def agents(self, S):
        frames = None
        out = []
        cur = S.current
        for a in S.agents:
            if a.state == 'done':
                out.append((a.id, 'done', type(a.exc).__name__
                            if a.exc is not None else None))
                continue
            hit = self.stack_cache.get(a.id)
            if hit is not None and hit[0] == a.steps and a is not cur:
                st = hit[1]
            else:
                if frames is None:
                    frames = sys._current_frames()
                f = frames.get(a.ident)
                st = self.stack(f) if f is not None else None
                self.stack_cache[a.id] = (a.steps, st)
            out.append((a.id, a.state, a.kind, a.waitq,
                        a.state == 'parked' and a.park_epoch == S.epoch,
                        a.fruitless_epoch == S.epoch, a.dirty, st))
        return tuple(out)

    def net(self, net):
        out = []
        for c in net.conns:
            srv = c.server
            s = None
            if srv is not None:
                s = (srv.state, len(srv.frames), len(srv.errors),
                     bytes(srv.pt), srv.waiting, srv.step_i, srv.closed,
                     srv.client_gone, srv.tx_off, srv.tx_comp,
                     srv.comp_switch, srv.rx_cipher is not None,
                     len(srv.play_rx), len(srv.plugin_replies))
            # c.hist: running hash of every send (agent, bytes, consumed)
            out.append((c.id, c.hist, len(c.sends), c.fed, bytes(c.s2c),
                        bytes(c.outbox), c.eof_pending,
                        c.s2c_eof, c.wr_shutdown, c.rd_shutdown,
                        c.sock_closed, c.file_closed, c.sent_after_end,
                        c.reads_after_eof, c.consumed, s))
        return (tuple(out), net.refused)


def make_state_fn(W, canon, roots, extra=lambda: None):
    """roots: objects whose vars() make up the shared state (Connections).
    S.log_hash is the running hash of the harness event log (the oracles read
    the log, so two states with different logs must differ)."""
    S = W.S
    canon.stack_cache.clear()

    def state():
        canon.cache.clear()
        return hash((S.current.id, canon.agents(S),
                     tuple([canon.obj(r, 3) for r in roots]),
                     canon.net(W.net), S.log_hash,
                     canon.obj(extra(), 3)))
    return state
