"""Common runner for all property checks.

A property module ``vf.props.cNN`` provides

    LEVEL   = 'exploration' | 'fault_enumeration' | 'model_checking'
    RULE    = one paragraph: how cases are enumerated, what is non-trivial
    def run(ctx)            -- enumerate, call ctx.* to count / report
    def replay(ctx, case)   -- re-run ONE recorded case without the explorer

Everything here is independent of pyCraft; pyCraft is imported from
``$VERIF_REPO`` (default /repo) by :func:`use_repo`.
"""
import collections
import hashlib
import importlib
import json
import multiprocessing
import os
import sys
import time
import traceback

VERIF = os.path.dirname(os.path.dirname(os.path.abspath(__file__)))
REPO = os.path.abspath(os.environ.get('VERIF_REPO', '/repo'))
JOBS = int(os.environ.get('VERIF_JOBS', '0')) or min(16, os.cpu_count() or 1)
MAX_REPORTED = 12          # VIOLATION lines printed per run (all are counted)


class ToolError(Exception):
    """The machinery itself misbehaved (nondeterminism, harness bug)."""


def use_repo():
    """Make ``import minecraft`` resolve to the tree under test."""
    sys.dont_write_bytecode = True
    if sys.path[0] != REPO:
        sys.path.insert(0, REPO)
    import minecraft
    got = os.path.abspath(minecraft.__file__)
    if not got.startswith(REPO + os.sep):
        raise ToolError('minecraft imported from %s, expected under %s'
                        % (got, REPO))
    return minecraft


def h64(obj):
    """Stable 64-bit hash of a JSON-able / repr-able object."""
    if not isinstance(obj, (bytes, bytearray)):
        obj = repr(obj).encode('utf-8', 'backslashreplace')
    return int.from_bytes(hashlib.blake2b(obj, digest_size=8).digest(), 'big')


def jsonable(x):
    if isinstance(x, (bytes, bytearray)):
        return {'hex': bytes(x).hex()}
    if isinstance(x, dict):
        return {str(k): jsonable(v) for k, v in x.items()}
    if isinstance(x, (list, tuple)):
        return [jsonable(v) for v in x]
    if isinstance(x, (set, frozenset)):
        return sorted((jsonable(v) for v in x), key=repr)
    if isinstance(x, float):
        if x != x or x in (float('inf'), float('-inf')):
            return {'float': repr(x)}
        return x
    if isinstance(x, (str, int, bool)) or x is None:
        return x
    return {'repr': repr(x)}


def unjson(x):
    """Inverse of jsonable for the shapes replay files use."""
    if isinstance(x, dict):
        if set(x) == {'hex'}:
            return bytes.fromhex(x['hex'])
        if set(x) == {'float'}:
            return float(x['float'])
        return {k: unjson(v) for k, v in x.items()}
    if isinstance(x, list):
        return [unjson(v) for v in x]
    return x


class Ctx(object):
    """Per-run accumulator.  Sub-contexts made by fork() are merged back with
    absorb(); all merging is order-independent."""

    def __init__(self, pid, tier='quick', seed=0, level='exploration'):
        self.pid, self.tier, self.seed, self.level = pid, tier, seed, level
        self.evaluations = 0
        self.nontrivial = set()        # 64-bit hashes of distinct cases
        self.nontrivial_extra = 0      # distinct-by-construction counts
        self.outcomes = collections.Counter()
        self.classes = collections.Counter()   # vacuity guards
        self.samples = []
        self.violations = {}           # key -> record
        self.extra = {}                # free-form evidence additions
        self.states = set()
        self.states_extra = 0          # states counted by a visited table
        self.transitions = 0
        self.traces = 0
        self.caps = []
        self.assumptions = []
        self.exhaustive = True

    @property
    def thorough(self):
        return self.tier == 'thorough'

    # -- counting -----------------------------------------------------
    def count(self, n=1):
        self.evaluations += n

    def note(self, sig):
        """Register one distinct non-trivial case by signature."""
        self.nontrivial.add(sig if isinstance(sig, int) else h64(sig))

    def note_distinct(self, n):
        """n cases known distinct by construction (enumerated w/o repeats)."""
        self.nontrivial_extra += n

    def outcome(self, label, n=1):
        self.outcomes[str(label)] += n

    def cls(self, label, n=1):
        self.classes[str(label)] += n

    def sample(self, obj, cap=6):
        if len(self.samples) < cap:
            self.samples.append(jsonable(obj))

    def state(self, canon):
        k = canon if isinstance(canon, int) else h64(canon)
        new = k not in self.states
        self.states.add(k)
        return new

    def cap(self, text):
        self.caps.append(text)
        self.exhaustive = False

    # -- verdicts -----------------------------------------------------
    def violation(self, key, what, case):
        """key: stable identity (matched against known_findings.json);
        what: human text; case: JSON-able data that replay() accepts."""
        key = str(key)
        if key not in self.violations:
            self.violations[key] = {'key': key, 'what': str(what)[:2000],
                                    'case': jsonable(case), 'n': 1}
        else:
            self.violations[key]['n'] += 1

    # -- parallel helpers --------------------------------------------
    def fork(self):
        return Ctx(self.pid, self.tier, self.seed, self.level)

    def export(self):
        d = dict(self.__dict__)
        return d

    def absorb(self, d):
        if isinstance(d, Ctx):
            d = d.export()
        self.evaluations += d['evaluations']
        self.nontrivial |= d['nontrivial']
        self.nontrivial_extra += d['nontrivial_extra']
        self.outcomes.update(d['outcomes'])
        self.classes.update(d['classes'])
        self.states |= d['states']
        self.states_extra += d.get('states_extra', 0)
        self.transitions += d['transitions']
        self.traces += d['traces']
        self.caps += d['caps']
        self.exhaustive = self.exhaustive and d['exhaustive']
        for k, v in d['violations'].items():
            if k in self.violations:
                self.violations[k]['n'] += v['n']
            else:
                self.violations[k] = v
        self.samples = sorted(self.samples + d['samples'],
                              key=lambda s: json.dumps(s, sort_keys=True)
                              )[:8] if d['samples'] else self.samples
        for k, v in d['extra'].items():
            if isinstance(v, (int, float)) and isinstance(
                    self.extra.get(k, 0), (int, float)):
                self.extra[k] = self.extra.get(k, 0) + v
            elif isinstance(v, list):
                self.extra[k] = (self.extra.get(k) or []) + v
            else:
                self.extra.setdefault(k, v)

    def pmap(self, fn, tasks, jobs=None, chunksize=1):
        """Run fn(sub_ctx, task) for every task on a fork pool; merge."""
        tasks = list(tasks)
        jobs = min(jobs or JOBS, max(1, len(tasks)))
        if jobs <= 1 or os.environ.get('VERIF_SERIAL'):
            for t in tasks:
                sub = self.fork()
                fn(sub, t)
                self.absorb(sub)
            return
        mp = multiprocessing.get_context('fork')
        counter = mp.Value('i', 0)
        with mp.Pool(jobs, initializer=_pin, initargs=(counter,)) as pool:
            for d in pool.imap_unordered(_Call(self, fn), tasks, chunksize):
                if 'tool_error' in d:
                    pool.terminate()
                    raise ToolError(d['tool_error'])
                self.absorb(d)


def _pin(counter):
    """Pool initializer: one CPU per worker.  The thread-baton hand-offs of
    pysched are 3-4x cheaper when all threads of a worker share a core."""
    try:
        with counter.get_lock():
            i = counter.value
            counter.value += 1
        cpus = sorted(os.sched_getaffinity(0)) if _ALL_CPUS is None \
            else _ALL_CPUS
        os.sched_setaffinity(0, {cpus[i % len(cpus)]})
    except (AttributeError, OSError):
        pass


try:
    _ALL_CPUS = sorted(os.sched_getaffinity(0))
except (AttributeError, OSError):
    _ALL_CPUS = None


def pin_self():
    """Pin the calling process to one CPU (serial harness runs)."""
    try:
        if _ALL_CPUS and len(os.sched_getaffinity(0)) > 1:
            os.sched_setaffinity(0, {_ALL_CPUS[-1]})
    except (AttributeError, OSError):
        pass


class _Call(object):
    def __init__(self, ctx, fn):
        self.proto, self.fn = (ctx.pid, ctx.tier, ctx.seed, ctx.level), fn

    def __call__(self, task):
        sub = Ctx(*self.proto)
        try:
            self.fn(sub, task)
        except ToolError as e:
            return {'tool_error': '%s\n%s' % (e, traceback.format_exc())}
        except BaseException as e:  # harness bug inside a worker
            return {'tool_error': 'worker crashed on task %r: %r\n%s'
                    % (task, e, traceback.format_exc())}
        return sub.export()


# ---------------------------------------------------------------------------

def load_known():
    path = os.path.join(VERIF, 'known_findings.json')
    try:
        with open(path) as f:
            return json.load(f)
    except FileNotFoundError:
        return {'open': [], 'fixed': []}


def write_replay(pid, rec):
    d = os.path.join(VERIF, 'out', 'replays')
    os.makedirs(d, exist_ok=True)
    name = '%s-%016x.json' % (pid, h64(rec['key']))
    path = os.path.join(d, name)
    with open(path, 'w') as f:
        json.dump({'property': pid, 'key': rec['key'], 'what': rec['what'],
                   'case': rec['case']}, f, indent=1, sort_keys=True)
    return path


def write_evidence(ctx, mod, wall, n_viol, n_known):
    cov = {
        'evaluations': int(ctx.evaluations),
        'distinct_nontrivial': int(len(ctx.nontrivial) + ctx.nontrivial_extra),
        'rule': getattr(mod, 'RULE', ''),
        'samples': ctx.samples or [],
        'exhaustive': bool(ctx.exhaustive),
        'distinct_outcomes': len(ctx.outcomes),
        'outcomes': dict(sorted(ctx.outcomes.items())[:60]),
        'classes': dict(sorted(ctx.classes.items())[:120]),
        'caps_hit': ctx.caps[:20],
        'known_findings_seen': n_known,
    }
    if ctx.level == 'model_checking':
        cov['states'] = int(len(ctx.states) + ctx.states_extra)
        cov['transitions'] = int(ctx.transitions)
        cov['traces_validated_against_impl'] = int(ctx.traces)
    cov.update(jsonable(ctx.extra))
    ev = {
        'property_id': ctx.pid, 'tier': ctx.tier, 'seed': int(ctx.seed),
        'level': ctx.level, 'coverage': cov,
        'assumptions': list(getattr(mod, 'ASSUMPTIONS', [])) + ctx.assumptions,
        'wall_s': round(wall, 3), 'violations': int(n_viol),
    }
    d = os.path.join(VERIF, 'evidence')
    os.makedirs(d, exist_ok=True)
    tmp = os.path.join(d, '.%s.json.tmp' % ctx.pid)
    with open(tmp, 'w') as f:
        json.dump(ev, f, indent=1, sort_keys=True)
    os.replace(tmp, os.path.join(d, '%s.json' % ctx.pid))


def main(argv=None):
    import argparse
    ap = argparse.ArgumentParser(prog='check')
    ap.add_argument('pid')
    ap.add_argument('--tier', default=os.environ.get('VERIF_TIER') or 'quick',
                    choices=['quick', 'thorough'])
    ap.add_argument('--replay')
    a = ap.parse_args(argv)
    pid = a.pid.upper()
    try:
        seed = int(os.environ.get('VERIF_SEED', '0') or 0)
    except ValueError:
        seed = h64(os.environ['VERIF_SEED']) & 0x7fffffff
    t0 = time.time()
    try:
        use_repo()
        mod = importlib.import_module('vf.props.%s' % pid.lower())
        ctx = Ctx(pid, a.tier, seed, mod.LEVEL)
        if a.replay:
            with open(a.replay) as f:
                rec = json.load(f)
            mod.replay(ctx, unjson(rec['case']))
        else:
            mod.run(ctx)
    except ToolError as e:
        print('TOOL-ERROR property=%s %s' % (pid, e))
        traceback.print_exc()
        return 2
    except Exception as e:
        print('TOOL-ERROR property=%s unexpected %r' % (pid, e))
        traceback.print_exc()
        return 2
    known = {(k['property'], k['key']): k for k in load_known()['open']}
    n_known = n_new = 0
    printed = 0
    for key in sorted(ctx.violations):
        rec = ctx.violations[key]
        if (pid, key) in known:
            n_known += 1
            print('KNOWN-FINDING: property=%s %s' % (pid, key))
            continue
        n_new += 1
        if printed < MAX_REPORTED:
            path = write_replay(pid, rec)
            print('VIOLATION property=%s replay=%s' % (pid, path))
            print('  key:  %s' % key)
            print('  what: %s' % rec['what'].replace('\n', '\n        '))
            printed += 1
    if n_new > printed:
        print('  ... and %d more distinct violations' % (n_new - printed))
    wall = time.time() - t0
    if not a.replay and not os.environ.get('VERIF_NO_EVIDENCE'):
        write_evidence(ctx, mod, wall, n_new, n_known)
    print('%s %s tier=%s seed=%d evaluations=%d distinct=%d outcomes=%d '
          'violations=%d known=%d wall=%.1fs'
          % ('FAIL' if n_new else 'OK', pid, a.tier, seed, ctx.evaluations,
             len(ctx.nontrivial) + ctx.nontrivial_extra, len(ctx.outcomes),
             n_new, n_known, wall))
    return 1 if n_new else 0
