"""Fast self-test of the trusted base, run by setup.sh."""
import importlib
import sys

MODS = ['vf.refproto.codec', 'vf.refproto.framing', 'vf.refproto.cfb8',
        'vf.refproto.javahash', 'vf.refproto.position',
        'vf.refproto.releases']


def main():
    for name in MODS:
        try:
            m = importlib.import_module(name)
        except ModuleNotFoundError as e:
            if e.name == name:
                continue
            raise
        m.selftest()
        print('selftest ok:', name)
    return 0


if __name__ == '__main__':
    sys.exit(main())
