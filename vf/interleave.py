"""Interleaving exploration for code outside connection.py.

The scheduler's default points are the bytecodes of connection.py that touch
attributes shared through `self`.  Code that is *supposed* to be free of
shared state (the wire types, packet codecs, the id ladders, the helper
records) has no such points - and that is exactly where a hoisted scratch
buffer, a module-level cache or a memo filled by two threads at once would
hide.  For such code every source LINE of every function of the named modules
is made a scheduling point, two (or three) agents each run one operation, and
all schedules within a preemption bound are executed on the real code.  The
usual oracle is differential: what each agent observed must be what the same
operation observes when run alone (the sequential behaviour is judged against
the reference elsewhere), and whatever is used afterwards must behave as it
does after a sequential run.

Usage (see vf/props/c02.py, section 'concurrent'):

    def race_factory(params):                       # module level
        def scenario(prefix, expect, visited=None, budget=0):
            return interleave.run(lambda W: my_body(W, params), prefix,
                                  expect, budget, modules=MODULES)
        return scenario

    def my_body(W, params):
        ops = [...callables...]
        res = interleave.race(W, ops)               # list of ('ok', value) /
        ...                                         # ('exc', 'TypeName: msg')
        return {'outcome': ..., 'violations': [(key, what), ...]}

    ex = explore.Explorer(memo=False)               # BEFORE running anything
    res = ex.explore(ctx, race_factory, params, bound, label='race ... ')

Line points are installed inside the worker processes only (the first time a
scenario runs there), so the sequential parts of a check pay nothing.

Instruction-level mode (optional, `run(..., instructions=True)`): a window
that lies inside ONE source line (`del TABLE[next(iter(TABLE))]`, `x.n += 1`)
cannot be split by line points.  With instructions=True every BYTECODE
INSTRUCTION of every function of the named modules is a scheduling point for
that execution (kind 'ins:<function>:<offset>'; line points of the same code
objects are silent meanwhile, they would only duplicate the first instruction
of each line).  This multiplies the number of points by about ten, so use it
for a few small pairs at a low preemption bound (worked example: the
'warm caches' part of the concurrent section of vf/props/c02.py).  Executions
with and without instructions=True can be mixed freely in one process.  In a
process where the mode has been installed, line and instruction events switch
themselves off outside scheduling windows (that makes long sequential
histories before a race cheap) and race() re-arms them when it opens the
window: open windows through race() there, not by setting S.window yourself.
"""
import importlib
import sys
import types

from vf import harness, pysched


def functions_of(module):
    """Every Python function defined in the module: module level, methods
    (static/class/property included), and nested classes."""
    seen, out = set(), []

    def add(f):
        f = getattr(f, '__func__', f)
        code = getattr(f, '__code__', None)
        if code is not None and id(code) not in seen and \
                code.co_filename == getattr(module, '__file__', None):
            seen.add(id(code))
            out.append(f)

    def walk(ns, depth=0):
        for v in list(ns.values()):
            if isinstance(v, (staticmethod, classmethod)):
                add(v.__func__)
            elif isinstance(v, property):
                for g in (v.fget, v.fset, v.fdel):
                    if g is not None:
                        add(g)
            elif isinstance(v, types.FunctionType):
                add(v)
            elif isinstance(v, type) and depth < 4 and \
                    getattr(v, '__module__', None) == module.__name__:
                walk(vars(v), depth + 1)
            elif hasattr(v, 'fget') and not isinstance(v, type):
                # descriptor objects of the library (overridable_property ...)
                for g in (getattr(v, 'fget', None), getattr(v, 'fset', None)):
                    if isinstance(g, types.FunctionType):
                        add(g)
    walk(vars(module))
    return out


def _class_functions(cls):
    out = []
    for v in vars(cls).values():
        if isinstance(v, (staticmethod, classmethod)):
            out.append(v.__func__)
        elif isinstance(v, property):
            out.extend(g for g in (v.fget, v.fset, v.fdel) if g is not None)
        elif isinstance(v, types.FunctionType):
            out.append(v)
        else:
            out.extend(g for g in (getattr(v, 'fget', None),
                                   getattr(v, 'fset', None))
                       if isinstance(g, types.FunctionType))
    return out


_DONE = set()
_FNS = {}                   # module spec -> its functions

# instruction-level mode
_INS_CODES = set()          # code objects armed with INSTRUCTION events
_INS_ON = [False]           # is the execution in progress instruction-level?
_INS_HOOKED = [False]


def _on_instruction(code, offset):
    if code not in _INS_CODES:
        return pysched._on_instruction(code, offset)
    S = pysched.CUR
    if not _INS_ON[0] or S is None or not S.window:
        # outside an instruction-level window the event is switched off at
        # this location (one call per location, then free); race() re-arms
        # all locations with restart_events() when such a window opens
        if code in pysched._OFFS:
            return pysched._on_instruction(code, offset)
        return sys.monitoring.DISABLE
    if not S.tracing or S.aborting or S.in_state_fn:
        return None
    me = S.by_ident.get(pysched.threading.get_ident())
    if me is None or me is not S.current:
        return None
    S.point('ins:%s:%d' % (code.co_name, offset))
    me.dirty = True         # any instruction may have stored something
    return None


def _on_line(code, line):
    if _INS_ON[0] and code in _INS_CODES:
        return None         # every instruction of this code is a point already
    S = pysched.CUR
    if (S is None or not S.window) and code in pysched._LINE_CODES:
        # outside a window (set-up, warm-up histories): switched off at this
        # location until race() re-arms everything for the next window
        return sys.monitoring.DISABLE
    return pysched._on_line(code, line)


def _install_instructions(fns):
    mon = sys.monitoring
    if not _INS_HOOKED[0]:
        # wrappers around the scheduler's own callbacks: code objects that
        # were never armed here are handled exactly as before
        mon.register_callback(pysched._TOOL, mon.events.INSTRUCTION,
                              _on_instruction)
        mon.register_callback(pysched._TOOL, mon.events.LINE, _on_line)
        _INS_HOOKED[0] = True
    stack = [getattr(getattr(f, '__func__', f), '__code__', None)
             for f in fns]
    while stack:
        code = stack.pop()
        if code is None or code in _INS_CODES:
            continue
        _INS_CODES.add(code)
        cur_ev = mon.get_local_events(pysched._TOOL, code)
        mon.set_local_events(pysched._TOOL, code,
                             cur_ev | mon.events.INSTRUCTION)
        # lambdas, nested functions and generator expressions too
        stack.extend(k for k in code.co_consts
                     if isinstance(k, types.CodeType))


def install(modules, instructions=False):
    """Make every line of every function of the named modules (dotted names,
    resolved in the tree under test; 'module:Class' restricts to one class)
    a scheduling point.  Idempotent.  instructions=True additionally arms
    every bytecode instruction of those functions (used only by executions
    started with run(..., instructions=True))."""
    harness.setup()
    for name in modules:
        if name in _DONE:
            if instructions:
                _install_instructions(_FNS[name])
            continue
        _DONE.add(name)
        modname, _, clsname = name.partition(':')
        mod = importlib.import_module(modname)
        fns = functions_of(mod)
        if clsname:
            # 'module:Class' - only the functions of that class
            keep = {id(getattr(getattr(f, '__func__', f), '__code__', None))
                    for f in _class_functions(getattr(mod, clsname))}
            fns = [f for f in fns if id(f.__code__) in keep]
        _FNS[name] = fns
        pysched.add_line_points(*fns)
        if instructions:
            _install_instructions(fns)


def run(body, prefix, expect, budget, modules, horizon=200000,
        instructions=False):
    install(modules, instructions)
    _INS_ON[0] = bool(instructions)
    try:
        return harness.run(body, prefix, tracing=True, expect=expect,
                           horizon=horizon, visited=None,
                           budget=0, lenient=budget == 'replay')
    finally:
        _INS_ON[0] = False


def race(W, ops, names=None):
    """Run the callables as concurrent agents inside a scheduling window;
    returns [('ok', value) | ('exc', 'Type: message')] in the order given."""
    S = W.S
    out = [None] * len(ops)

    def runner(i, fn):
        def f():
            try:
                out[i] = ('ok', fn())
            except Exception as e:          # judged by the caller
                out[i] = ('exc', '%s: %s' % (type(e).__name__, e))
        return f
    if _INS_HOOKED[0]:
        sys.monitoring.restart_events()     # re-arm switched-off locations
    S.window = True
    agents = [S.spawn(runner(i, fn), name=(names or {}).get(i, 'op%d' % i))
              for i, fn in enumerate(ops)]
    for a in agents:
        S.join(a)
    S.window = False
    return out
