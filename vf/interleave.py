"""Interleaving exploration for code outside connection.py.

The scheduler's default points are the bytecodes of connection.py that touch
attributes shared through `self`.  Code that is *supposed* to be free of
shared state (the wire types, packet codecs, the id ladders, the helper
records) has no such points - and that is exactly where a hoisted scratch
buffer, a module-level cache or a memo filled by two threads at once would
hide.  For such code every source LINE of every function of the named modules
is made a scheduling point, two (or three) agents each run one operation, and
all schedules within a preemption bound are executed on the real code.  The
usual oracle is differential: what each agent observed must be what the same
operation observes when run alone (the sequential behaviour is judged against
the reference elsewhere), and whatever is used afterwards must behave as it
does after a sequential run.

Usage (see vf/props/c02.py, section 'concurrent'):

    def race_factory(params):                       # module level
        def scenario(prefix, expect, visited=None, budget=0):
            return interleave.run(lambda W: my_body(W, params), prefix,
                                  expect, budget, modules=MODULES)
        return scenario

    def my_body(W, params):
        ops = [...callables...]
        res = interleave.race(W, ops)               # list of ('ok', value) /
        ...                                         # ('exc', 'TypeName: msg')
        return {'outcome': ..., 'violations': [(key, what), ...]}

    ex = explore.Explorer(memo=False)               # BEFORE running anything
    res = ex.explore(ctx, race_factory, params, bound, label='race ... ')

Line points are installed inside the worker processes only (the first time a
scenario runs there), so the sequential parts of a check pay nothing.
"""
import importlib
import types

from vf import harness, pysched


def functions_of(module):
    """Every Python function defined in the module: module level, methods
    (static/class/property included), and nested classes."""
    seen, out = set(), []

    def add(f):
        f = getattr(f, '__func__', f)
        code = getattr(f, '__code__', None)
        if code is not None and id(code) not in seen and \
                code.co_filename == getattr(module, '__file__', None):
            seen.add(id(code))
            out.append(f)

    def walk(ns, depth=0):
        for v in list(ns.values()):
            if isinstance(v, (staticmethod, classmethod)):
                add(v.__func__)
            elif isinstance(v, property):
                for g in (v.fget, v.fset, v.fdel):
                    if g is not None:
                        add(g)
            elif isinstance(v, types.FunctionType):
                add(v)
            elif isinstance(v, type) and depth < 4 and \
                    getattr(v, '__module__', None) == module.__name__:
                walk(vars(v), depth + 1)
            elif hasattr(v, 'fget') and not isinstance(v, type):
                # descriptor objects of the library (overridable_property ...)
                for g in (getattr(v, 'fget', None), getattr(v, 'fset', None)):
                    if isinstance(g, types.FunctionType):
                        add(g)
    walk(vars(module))
    return out


def _class_functions(cls):
    out = []
    for v in vars(cls).values():
        if isinstance(v, (staticmethod, classmethod)):
            out.append(v.__func__)
        elif isinstance(v, property):
            out.extend(g for g in (v.fget, v.fset, v.fdel) if g is not None)
        elif isinstance(v, types.FunctionType):
            out.append(v)
        else:
            out.extend(g for g in (getattr(v, 'fget', None),
                                   getattr(v, 'fset', None))
                       if isinstance(g, types.FunctionType))
    return out


_DONE = set()


def install(modules):
    """Make every line of every function of the named modules (dotted names,
    resolved in the tree under test; 'module:Class' restricts to one class)
    a scheduling point.  Idempotent."""
    harness.setup()
    for name in modules:
        if name in _DONE:
            continue
        _DONE.add(name)
        modname, _, clsname = name.partition(':')
        mod = importlib.import_module(modname)
        fns = functions_of(mod)
        if clsname:
            # 'module:Class' - only the functions of that class
            keep = {id(getattr(getattr(f, '__func__', f), '__code__', None))
                    for f in _class_functions(getattr(mod, clsname))}
            fns = [f for f in fns if id(f.__code__) in keep]
        pysched.add_line_points(*fns)


def run(body, prefix, expect, budget, modules, horizon=200000):
    install(modules)
    return harness.run(body, prefix, tracing=True, expect=expect,
                       horizon=horizon, visited=None,
                       budget=0, lenient=budget == 'replay')


def race(W, ops, names=None):
    """Run the callables as concurrent agents inside a scheduling window;
    returns [('ok', value) | ('exc', 'Type: message')] in the order given."""
    S = W.S
    out = [None] * len(ops)

    def runner(i, fn):
        def f():
            try:
                out[i] = ('ok', fn())
            except Exception as e:          # judged by the caller
                out[i] = ('exc', '%s: %s' % (type(e).__name__, e))
        return f
    S.window = True
    agents = [S.spawn(runner(i, fn), name=(names or {}).get(i, 'op%d' % i))
              for i, fn in enumerate(ops)]
    for a in agents:
        S.join(a)
    S.window = False
    return out
