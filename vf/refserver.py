"""refserver - an independent Minecraft server endpoint for vnet.

Encodes and decodes with vf.refproto only (own framing, own CFB8, RSA through
'cryptography' with a fixed test key).  Packet *ids* are supplied by the
harness (vf.protoids): from the reference release table for release versions,
from the tree under test for development snapshots.  Layout switches that fall
between releases are constants here (documented below), so they do not follow
the tree under test.

One RefServer instance serves one TCP connection.  It is a reactive state
machine driven by vnet (on_connect / on_sends / on_client_gone) and by the
harness (play(...), close()).
"""
import json

from vf.refproto import codec, framing
from vf.refproto.cfb8 import CFB8
from vf.refproto.codec import Reader, Short, Malformed

# Layout switches between releases (publication rank is what matters; the
# numbers are the first development snapshot carrying the new layout).
KEEPALIVE_LONG_FROM = 339        # 1.12.2-pre1; releases: 338 VarInt, 340 Long
LOGIN_UUID_BINARY_FROM = 707     # 20w12a;      releases: 578 String, 735 UUID
TELEPORT_ID_FROM = 107           # 1.9
DISMOUNT_FROM = 755              # 1.17
CHAT_SENDER_FROM = 718           # 20w21a;      releases: 578 no, 735 yes


class Rank(object):
    """Publication order of protocol numbers (list supplied by harness)."""
    def __init__(self, order):
        self.idx = {v: i for i, v in enumerate(order)}

    def ge(self, v, ref):
        return self.idx[v] >= self.idx[ref]


class RefServer(object):
    def __init__(self, conn, ids, rank, status=None, login=None, mode='wait',
                 rsa=None, play_script=(), close_after=None, log=None):
        """ids: callable(name, version)->int.  status: dict describing the
        status behaviour.  login: list of steps.  rsa: (private_key, der)."""
        self.conn, self.ids, self.rank = conn, ids, rank
        self.status_cfg = status or {}
        self.login_script = list(login or [('success',)])
        self.mode = mode
        self.rsa = rsa
        self.play_script = list(play_script)
        self.close_after = close_after
        self.state = 'handshake'
        self.version = None
        self.handshake = None
        self.login_name = None
        self.frames = []             # (state, id, payload) from the client
        self.errors = []
        self.raw = bytearray()       # undecrypted bytes not yet consumed
        self.pt = bytearray()        # plaintext not yet framed
        self.tags = []               # consumed_at_send per plaintext byte
        self.rx_cipher = self.tx_cipher = None
        self.tx_comp = None          # threshold the server applies
        self.comp_switch = None      # s2c offset after our set-compression
        self.tx_off = 0
        self.waiting = None
        self.secret = None
        self.verify_token = None
        self.enc_response_raw = None
        self.plugin_sent = []        # message ids
        self.plugin_replies = []     # (message_id, successful, data)
        self.play_rx = []            # decoded serverbound play packets
        self.closed = False
        self.client_gone = False
        self.bytes_after_gone = 0
        self.step_i = 0
        self.encrypted_rx_bytes = 0
        self.sent_log = []           # (name, fields) of packets we sent
        self.pings = []              # payloads of status pings received
        self.status_requests = 0
        self.token_back = None       # verify token as decrypted by us
        self.server_id = None
        self.version_unknown = False

    # -- transport ----------------------------------------------------------
    def on_connect(self, conn):
        if self.close_after == 'connect':
            self.close()

    def on_sends(self, conn, entries):
        for agent, data, consumed in entries:
            if self.closed:
                self.bytes_after_gone += len(data)
                continue
            if self.rx_cipher is not None:
                self.encrypted_rx_bytes += len(data)
                data = self.rx_cipher.decrypt(data)
            self.pt += data
            self.tags += [consumed] * len(data)
            self._parse()

    def on_client_gone(self, conn):
        self.client_gone = True

    def _parse(self):
        while not self.closed and not self.errors:
            r = Reader(bytes(self.pt))
            try:
                n = r.varnum(3)
                body = r.take(n)
            except Short:
                return
            except Malformed as e:
                self.errors.append('bad frame length from client: %s' % e)
                return
            tag = self.tags[0]
            del self.pt[:r.pos]
            del self.tags[:r.pos]
            compressed = (self.comp_switch is not None
                          and tag >= self.comp_switch)
            try:
                d = framing.Deframer(self.tx_comp if compressed else None)
                pid, payload, was = d.parse_body(body)
            except Exception as e:
                self.errors.append('undecodable frame from client (%s '
                                   'format): %r %s' % (
                                       'compressed' if compressed else 'plain',
                                       e, body[:40].hex()))
                return
            self.frames.append((self.state, pid, payload, compressed, was))
            try:
                self._handle(pid, payload)
            except (Short, Malformed, UnicodeDecodeError) as e:
                self.errors.append('malformed %s packet 0x%02X from client: '
                                   '%r %s' % (self.state, pid, e,
                                              payload[:40].hex()))

    def send(self, name, payload, pid=None, **frame_kw):
        if self.closed:
            return
        if pid is None:
            pid = self.ids(name, self.version)
        data = framing.frame(pid, payload, self.tx_comp, **frame_kw)
        if self.tx_cipher is not None:
            data = self.tx_cipher.encrypt(data)
        self.tx_off += len(data)
        self.conn.frame_ends.append(self.tx_off)
        self.conn.push(data)

    def close(self):
        if not self.closed:
            self.closed = True
            self.conn.close()

    # -- protocol -------------------------------------------------------------
    def _handle(self, pid, payload):
        r = Reader(payload)
        st = self.state
        if st == 'handshake':
            if pid != 0:
                self.errors.append('handshake: unexpected id 0x%02X' % pid)
                return
            hs = {'protocol': r.varnum(5), 'host': r.string(),
                  'port': r.uint(2), 'next': r.varnum(5)}
            if r.left:
                self.errors.append('handshake: %d trailing bytes' % r.left)
            self.handshake = hs
            self.version = hs['protocol']
            if self.version not in self.rank.idx:
                self.version_unknown = True
            if hs['next'] == 1:
                self.state = 'status'
            elif hs['next'] == 2:
                self.state = 'login'
            else:
                self.errors.append('handshake: next state %r' % hs['next'])
            if self.close_after == 'handshake':
                self.close()
        elif st == 'status':
            if pid == 0:
                if r.left:
                    self.errors.append('status request with payload')
                self.status_requests += 1
                if self.close_after == 'request':
                    self.close()
                    return
                if self.status_cfg.get('silent'):
                    return              # reads the request, never answers
                body = self.status_cfg.get('json')
                self.send('status.response', codec.string(body), pid=0)
                if self.close_after == 'response':
                    self.close()
            elif pid == 1:
                t = r.sint(8)
                if r.left:
                    self.errors.append('ping: trailing bytes')
                self.pings.append(t)
                if self.status_cfg.get('pong', True):
                    self.send('status.pong', codec.sint(t, 8), pid=1)
                if self.close_after == 'pong':
                    self.close()
            else:
                self.errors.append('status: unexpected id 0x%02X' % pid)
        elif st == 'login':
            self._login(pid, r)
        elif st == 'play':
            self._play(pid, r, payload)

    # login ---------------------------------------------------------------
    def _login(self, pid, r):
        ids, v = self.ids, self.version
        if pid == ids('sb.login.start', v) and self.login_name is None:
            self.login_name = r.string()
            if r.left:
                self.errors.append('login start: %d trailing bytes' % r.left)
            self._advance()
        elif pid == ids('sb.login.encryption_response', v) and \
                self.waiting == 'encrypt':
            from cryptography.hazmat.primitives.asymmetric.padding import \
                PKCS1v15
            enc_secret = r.var_bytes()
            enc_token = r.var_bytes()
            if r.left:
                self.errors.append('encryption response: trailing bytes')
            key = self.rsa[0]
            try:
                secret = key.decrypt(enc_secret, PKCS1v15())
                token = key.decrypt(enc_token, PKCS1v15())
            except Exception as e:
                self.errors.append('encryption response does not decrypt '
                                   'under the server key: %r' % (e,))
                return
            self.secret, self.token_back = secret, token
            if token != self.verify_token:
                self.errors.append('verify token mismatch: sent %s got %s'
                                   % (self.verify_token.hex(), token.hex()))
            if len(secret) != 16:
                self.errors.append('shared secret has %d bytes' % len(secret))
                return
            self.rx_cipher = CFB8(secret)
            self.tx_cipher = CFB8(secret)
            # whatever followed the response in the same segment is ciphertext
            if self.pt:
                rest = bytes(self.pt)
                self.encrypted_rx_bytes += len(rest)
                self.pt[:] = self.rx_cipher.decrypt(rest)
            self.waiting = None
            self._advance()
        elif self.has_plugin() and \
                pid == ids('sb.login.plugin_response', v):
            mid = r.varnum(5)
            ok = r.boolean()
            data = r.rest() if ok else None
            if not ok and r.left:
                self.errors.append('plugin response: data after '
                                   'successful=false')
            self.plugin_replies.append((mid, ok, data))
            if self.waiting == ('plugin', mid):
                self.waiting = None
                self._advance()
        else:
            self.errors.append('login: unexpected id 0x%02X (waiting %r)'
                               % (pid, self.waiting))

    def has_plugin(self):
        return self.rank.ge(self.version, 385)

    def _advance(self):
        while self.step_i < len(self.login_script) and not self.closed \
                and self.waiting is None:
            step = self.login_script[self.step_i]
            self.step_i += 1
            kind = step[0]
            if kind == 'encrypt':
                server_id, token = step[1], step[2]
                self.verify_token = token
                self.server_id = server_id
                self.send('login.encryption_request',
                          codec.string(server_id)
                          + codec.var_bytes(self.rsa[1])
                          + codec.var_bytes(token))
                self.waiting = 'encrypt'
            elif kind == 'compress':
                self.send('login.set_compression',
                          codec.varint_signed(step[1]))
                self.tx_comp = step[1]
                self.comp_switch = self.tx_off
            elif kind == 'plugin':
                mid, channel, data = step[1], step[2], step[3]
                self.plugin_sent.append(mid)
                self.send('login.plugin_request', codec.varnum(mid)
                          + codec.string(channel) + data)
                if self.mode == 'wait':
                    self.waiting = ('plugin', mid)
            elif kind == 'success':
                uid = '12345678-1234-5678-1234-567812345678'
                name = self.login_name or ''
                if self.rank.ge(self.version, LOGIN_UUID_BINARY_FROM):
                    p = codec.uuid_bytes(uid) + codec.string(name)
                else:
                    p = codec.string(uid) + codec.string(name)
                self.send('login.success', p)
                self.state = 'play'
                self._play_start()
            elif kind == 'disconnect':
                self.send('login.disconnect', codec.string(step[1]))
                self.close()
            elif kind == 'close':
                self.close()
            elif kind == 'raw':
                self.conn.push(step[1])
            else:
                raise ValueError(step)

    # play ------------------------------------------------------------------
    def _play_start(self):
        for ev in self.play_script:
            self.play(ev)

    def keepalive_payload(self, n):
        if self.rank.ge(self.version, KEEPALIVE_LONG_FROM):
            return codec.sint(n, 8)
        return codec.varint_signed(n)

    def play(self, ev):
        """Send one play-state event (harness or script)."""
        if self.closed:
            return
        kind = ev[0]
        v = self.version
        if kind == 'keepalive':
            self.send('play.keep_alive', self.keepalive_payload(ev[1]))
        elif kind == 'ppl':
            x, y, z, yaw, pitch, flags, tid = ev[1:8]
            p = (codec.f64(x) + codec.f64(y) + codec.f64(z) + codec.f32(yaw)
                 + codec.f32(pitch) + codec.sint(flags, 1))
            if self.rank.ge(v, TELEPORT_ID_FROM):
                p += codec.varnum(tid)
            if self.rank.ge(v, DISMOUNT_FROM):
                p += codec.boolean(False)
            self.send('play.position_and_look', p)
        elif kind == 'raw':             # (raw, id, payload): any frame
            self.send(None, ev[2], pid=ev[1])
        elif kind == 'named':           # (named, name, payload)
            self.send(ev[1], ev[2])
        elif kind == 'disconnect':
            self.send('play.disconnect', codec.string(ev[1]))
            self.close()
        elif kind == 'compress':        # 1.8 only: set compression in play
            self.send('play.set_compression', codec.varint_signed(ev[1]))
            self.tx_comp = ev[1]
            self.comp_switch = self.tx_off
        elif kind == 'close':
            self.close()
        elif kind == 'rawbytes':        # unframed bytes (partial frames)
            data = ev[1]
            if self.tx_cipher is not None:
                data = self.tx_cipher.encrypt(data)
            self.tx_off += len(data)
            self.conn.push(data)
        else:
            raise ValueError(ev)
        self.sent_log.append(ev)

    def _play(self, pid, r, payload):
        ids, v = self.ids, self.version
        if pid == ids('sb.play.keep_alive', v):
            if self.rank.ge(v, KEEPALIVE_LONG_FROM):
                n = r.sint(8)
            else:
                n = r.varnum(5)
                if n >= 1 << 31:
                    n -= 1 << 32
            if r.left:
                self.errors.append('keep alive: %d trailing bytes' % r.left)
            self.play_rx.append(('keepalive', n))
        elif self.rank.ge(v, TELEPORT_ID_FROM) and \
                pid == ids('sb.play.teleport_confirm', v):
            n = r.varnum(5)
            if r.left:
                self.errors.append('teleport confirm: trailing bytes')
            self.play_rx.append(('teleport_confirm', n))
        elif pid == ids('sb.play.chat', v):
            msg = r.string()
            if r.left:
                self.errors.append('chat: trailing bytes')
            self.play_rx.append(('chat', msg))
        elif pid == ids('sb.play.position_and_look', v):
            rec = ('position_and_look', r.f64(), r.f64(), r.f64(), r.f32(),
                   r.f32(), r.boolean())
            if r.left:
                self.errors.append('position and look: trailing bytes')
            self.play_rx.append(rec)
        else:
            self.play_rx.append(('other', pid, bytes(payload)))


def status_json(protocol='omit', name='x', extra=None, version_obj=True):
    """JSON text of a status response.  protocol='omit' leaves the key out."""
    d = {'description': {'text': 'vf'}, 'players': {'max': 1, 'online': 0}}
    if version_obj:
        vo = {}
        if name is not None:
            vo['name'] = name
        if protocol != 'omit':
            vo['protocol'] = protocol
        d['version'] = vo
    if extra:
        d.update(extra)
    return json.dumps(d)
