"""pysched - a controlled scheduler for real Python threads.

Agents are real OS threads serialised by a baton (one semaphore per agent):
exactly one agent runs, all others are parked on their semaphore.  The baton
moves only at *scheduling points* (controlled lock, queue, socket, select,
thread start/join/finish and - when tracing is on - every bytecode of
minecraft/networking/connection.py that touches a shared attribute).  Which
agent continues at a point where several are enabled is a *choice*; an
execution is fully determined by its list of choices, so it can be replayed,
and an explorer enumerates choice lists (see vf/explore.py).

Waiting is visible: an agent is ready, blocked on a condition (lock, join,
read on an empty stream), parked (an idle poller, see VNet.select) or done.
"""
import dis
import os
import sys
import threading

from vf.runner import ToolError


class Abort(BaseException):
    """Raised inside parked agents to unwind them at the end of a run."""


class Failure(BaseException):
    """Deadlock / livelock verdict, raised in the driver."""
    def __init__(self, kind, detail):
        BaseException.__init__(self, kind, detail)
        self.kind, self.detail = kind, detail


class Nondeterminism(ToolError):
    pass


class Agent(object):
    __slots__ = ('id', 'name', 'sem', 'state', 'cond', 'kind', 'park_epoch',
                 'fruitless_epoch', 'exc', 'thread', 'obj', 'dirty', 'waitq',
                 'steps', 'ident')

    def __init__(self, id_, name):
        self.id, self.name = id_, name
        self.sem = threading.Semaphore(0)
        self.state = 'ready'       # ready | blocked | parked | done
        self.cond = None
        self.kind = None           # what it is blocked on
        self.park_epoch = -1
        self.fruitless_epoch = -1
        self.exc = None
        self.thread = None
        self.obj = None
        self.dirty = False
        self.waitq = False
        self.steps = 0
        self.ident = None

    def __repr__(self):
        return '<agent %d %s %s%s>' % (self.id, self.name, self.state,
                                      ':' + self.kind if self.kind else '')


CUR = None      # the Sched of the execution in progress (one per process)
_REAL_START = threading.Thread.start
_REAL_JOIN = threading.Thread.join
_REAL_ALIVE = threading.Thread.is_alive
PRUNE = object()
HANG_SECONDS = 300


def cur():
    if CUR is None:
        raise ToolError('no scheduler installed')
    return CUR


class Sched(object):
    def __init__(self, prefix=(), horizon=20000, tracing=False,
                 expect=None):
        self.prefix = list(prefix)
        self.expect = expect            # signatures recorded by the parent run
        self.horizon = horizon
        self.tracing = tracing
        self.agents = []
        self.by_ident = {}
        self.current = None
        self.epoch = 0
        self.steps = 0
        self.window = False
        self.points = []                # (n_enabled, current_enabled, sig)
        self.choices = []
        self.aborting = False
        self.failure = None
        self.log = []                   # harness-visible event log
        self.log_hash = 0               # running hash of the log
        self.monitors = []              # callables run at every point
        self.switches = 0
        self.preemptions = 0
        self.visited = None             # table: state key -> budget left
        self.seen_here = set()          # keys first met in this execution
        self.state_fn = None
        self.budget = 0
        self.exec_id = 0
        self.used0 = 0                  # preemptions spent inside the prefix
        self.state_keys = 0
        self.in_state_fn = False
        self.lenient = False            # replaying a schedule recorded on
        self.diverged = False           # another tree: divergence tolerated
        drv = self._new_agent('driver')
        drv.ident = threading.get_ident()
        self.by_ident[drv.ident] = drv
        self.current = drv
        self.driver = drv

    # -- bookkeeping --------------------------------------------------
    def _new_agent(self, name):
        a = Agent(len(self.agents), name)
        self.agents.append(a)
        return a

    def me(self):
        a = self.by_ident.get(threading.get_ident())
        if a is None:
            raise ToolError('thread %r is not under the scheduler'
                            % threading.current_thread())
        return a

    def effect(self):
        """Something observable by other agents changed."""
        self.epoch += 1

    def event(self, *rec):
        self.log.append(rec)
        if self.window:     # the scripted set-up before the window is the
            # same in every execution (up to RSA padding randomness)
            self.log_hash = hash((self.log_hash, rec))

    # -- enabledness ----------------------------------------------------
    def _enabled_one(self, a):
        if a.state == 'ready':
            return True
        if a.state == 'blocked':
            return bool(a.cond())
        if a.state == 'parked':
            return a.park_epoch != self.epoch
        return False

    def _enabled(self, me):
        others = [a for a in self.agents
                  if not a.waitq and self._enabled_one(a)]
        en = list(others)
        for a in self.agents:
            if a.waitq and not others:
                en.append(a)
        en.sort(key=lambda a: (a is not me, a.id))
        return en

    # -- the scheduling step ---------------------------------------------
    def _pick(self, me, kind):
        en = self._enabled(me)
        if not en:
            return None
        idx = 0
        if len(en) > 1 and self.window:
            cur_en = en[0] is me
            sig = (kind, tuple(a.id for a in en))
            i = len(self.points)
            if self.expect is not None and i < len(self.prefix) and \
                    i < len(self.expect) and self.expect[i] != sig:
                raise Nondeterminism(
                    'replay diverged at choice point %d: expected %r, '
                    'got %r' % (i, self.expect[i], sig))
            if i < len(self.prefix):
                idx = self.prefix[i]
                if not 0 <= idx < len(en):
                    if not self.lenient:
                        raise Nondeterminism(
                            'choice %d out of range (%d enabled) at point %d'
                            % (idx, len(en), i))
                    self.diverged = True    # replay on a different tree
                    idx = 0
            elif self.visited is not None and self.state_fn is not None:
                # new territory: have we expanded this state before with at
                # least as much preemption budget left?  Then every
                # continuation from here is already covered.
                self.in_state_fn = True
                try:
                    key = (self.state_fn(), sig)
                finally:
                    self.in_state_fn = False
                self.state_keys += 1
                key = hash((key, getattr(self.visited, 'salt', 0)))
                left = self.budget - self.preemptions
                if key not in self.seen_here:   # not a cycle of this run
                    self.seen_here.add(key)
                    prev = self.visited.lookup(key)
                    if prev is None or prev < left:
                        self.visited.store(key, left)
                    else:
                        return PRUNE
            self.points.append((len(en), cur_en, sig))
            self.choices.append(idx)
            if idx and cur_en:
                self.preemptions += 1
        return en[idx]

    def _reschedule(self, me, kind):
        """me has set its own state; move the baton if the choice says so."""
        if me.dirty:
            me.dirty = False
            self.epoch += 1
        for m in self.monitors:
            m(self, me, kind)
        self.steps += 1
        me.steps += 1
        if self.steps > self.horizon and self.failure is None:
            self._fail('livelock', 'step horizon %d exceeded; last agent %r '
                       'at %s' % (self.horizon, me, kind), me)
            return
        nxt = self._pick(me, kind)
        if nxt is PRUNE:
            self._fail('pruned', 'state already expanded', me)
            return
        if nxt is None:
            self._fail('deadlock', 'no agent enabled: %s'
                       % ', '.join(map(repr, self.agents)), me)
            return
        if nxt is me:
            return
        self._handoff(me, nxt)

    def _handoff(self, me, nxt):
        self.switches += 1
        self.current = nxt
        nxt.sem.release()
        if me is self.driver:
            if not me.sem.acquire(timeout=HANG_SECONDS):
                raise ToolError(self.hang_report())
        else:
            me.sem.acquire()
        if self.aborting:
            raise Abort()
        if self.failure is not None and me is self.driver:
            raise Failure(*self.failure)

    def _fail(self, kind, detail, me):
        """Record a deadlock/livelock verdict and get the driver to see it."""
        self.failure = (kind, detail)
        if me is self.driver:
            raise Failure(kind, detail)
        self.current = self.driver
        self.driver.sem.release()
        me.sem.acquire()          # stays here until abort
        raise Abort()

    def hang_report(self):
        import traceback
        frames = sys._current_frames()
        out = ['scheduler hang: the driver was not woken for %d s; current=%r '
               'agents=%r prefix=%r choices=%r'
               % (HANG_SECONDS, self.current, self.agents, self.prefix,
                  self.choices)]
        for a in self.agents:
            f = frames.get(a.ident)
            if f is not None:
                out.append('--- %r\n%s' % (a, ''.join(
                    traceback.format_stack(f)[-12:])))
        return '\n'.join(out)

    # -- primitives used by controlled objects ------------------------------
    def point(self, kind):
        if self.aborting:
            raise Abort()
        if self.in_state_fn:
            raise ToolError('scheduling point %r reached from inside the '
                            'state function' % (kind,))
        me = self.me()
        if me is not self.current:
            raise ToolError('agent %r runs without the baton (current %r)'
                            % (me, self.current))
        me.state = 'ready'
        self._reschedule(me, kind)

    def block_until(self, cond, kind):
        if self.aborting:
            raise Abort()
        me = self.me()
        if cond():
            return self.point(kind)
        me.state, me.cond, me.kind = 'blocked', cond, kind
        try:
            self._reschedule(me, kind)
        finally:
            me.state, me.cond, me.kind = 'ready', None, None

    def park(self, kind='idle'):
        if self.aborting:
            raise Abort()
        me = self.me()
        me.state, me.park_epoch, me.kind = 'parked', self.epoch, kind
        try:
            self._reschedule(me, kind)
        finally:
            me.state, me.kind = 'ready', None

    # -- agents ---------------------------------------------------------------
    def spawn(self, fn, name='user', obj=None, thread=None):
        """Create an agent running fn(); it first runs when scheduled.
        thread: an existing threading.Thread object to run in (so that
        threading.current_thread() inside fn is that very object)."""
        if self.aborting:
            raise Abort()
        a = self._new_agent(name)
        a.obj = obj

        def boot():
            a.sem.acquire()
            try:
                if self.aborting:
                    return
                try:
                    fn()
                except Abort:
                    pass
                except Failure:
                    pass
                except BaseException as e:
                    a.exc = e
            finally:
                self._finish(a)

        if thread is None:
            t = threading.Thread(target=boot, name='vf-%s-%d' % (name, a.id),
                                 daemon=True)
        else:
            t = thread
            t.run = boot            # instance attribute shadows the method
            t.daemon = True
        a.thread = t
        _REAL_START(t)
        a.ident = t.ident
        self.by_ident[t.ident] = a
        self.effect()
        return a

    def _finish(self, a):
        a.state, a.cond = 'done', None
        if self.aborting:
            return
        self.epoch += 1
        try:
            for m in self.monitors:
                m(self, a, 'finish')
            nxt = self._pick(a, 'finish')
        except BaseException as e:       # tool error inside a dying agent
            self.failure = ('tool', repr(e))
            nxt = self.driver
        if nxt is PRUNE:
            self.failure = ('pruned', 'state already expanded')
            nxt = self.driver
        if nxt is None:
            self.failure = ('deadlock', 'no agent enabled after %r finished: '
                            '%s' % (a, ', '.join(map(repr, self.agents))))
            nxt = self.driver
        self.current = nxt
        nxt.sem.release()

    def join(self, agent):
        self.block_until(lambda: agent.state == 'done', 'join')

    def wait_quiescent(self):
        """Driver only: wait until no other agent can take a step."""
        me = self.me()
        if me is not self.driver:
            raise ToolError('wait_quiescent from a non-driver agent')
        self.epoch += 1           # every driver action unparks idle pollers
        me.waitq = True
        me.state, me.kind = 'blocked', 'quiescence'
        me.cond = lambda: True
        try:
            self._reschedule(me, 'quiescence')
        finally:
            me.waitq = False
            me.state, me.cond, me.kind = 'ready', None, None

    def live(self):
        return [a for a in self.agents if a is not self.driver
                and a.state != 'done']

    def stuck(self):
        """Agents blocked on a lock or join (meaningful at quiescence)."""
        return [a for a in self.live() if a.state == 'blocked'
                and a.kind in ('lock', 'join')]

    def finish(self):
        """End of execution: unwind every remaining agent."""
        self.aborting = True
        for a in self.agents:
            if a is not self.driver and a.state != 'done':
                a.sem.release()
        for a in self.agents:
            if a.thread is not None:
                _REAL_JOIN(a.thread, 120)
                if _REAL_ALIVE(a.thread):
                    raise ToolError('agent %r did not unwind' % a)


# ---------------------------------------------------------------------------
# Controlled primitives

class CRLock(object):
    """Re-entrant lock whose acquire/release are scheduling points."""

    def __init__(self):
        self.owner = None
        self.count = 0

    def acquire(self, blocking=True, timeout=-1):
        S = cur()
        if S.aborting:
            return True
        me = S.me()
        S.point('lock.acquire')
        if self.owner is me:
            self.count += 1
            return True
        if self.owner is not None:
            if not blocking:
                return False
            S.block_until(lambda: self.owner is None, 'lock')
        self.owner, self.count = me, 1
        return True

    def release(self):
        S = cur()
        if S.aborting:
            return
        me = S.me()
        if self.owner is not me:
            raise RuntimeError('cannot release un-acquired lock')
        self.count -= 1
        if self.count == 0:
            self.owner = None
            S.point('lock.release')

    def __enter__(self):
        self.acquire()
        return self

    def __exit__(self, *exc):
        self.release()
        return False


from collections import deque as _deque


class CDeque(_deque):
    """deque whose mutations are scheduling points and effects."""

    def append(self, x):
        S = cur()
        if not S.aborting and not (S.tracing and S.window):
            S.point('queue.append')
        _deque.append(self, x)
        S.effect()

    def popleft(self):
        S = cur()
        if not S.aborting and not (S.tracing and S.window):
            S.point('queue.popleft')
        x = _deque.popleft(self)
        S.effect()
        return x

    def pop(self):
        S = cur()
        if not S.aborting:
            S.point('queue.pop')
        x = _deque.pop(self)
        S.effect()
        return x

    def appendleft(self, x):
        S = cur()
        if not S.aborting:
            S.point('queue.appendleft')
        _deque.appendleft(self, x)
        S.effect()


# ---------------------------------------------------------------------------
# Bytecode-level scheduling points in connection.py (sys.monitoring)
#
# Every instruction of minecraft/networking/connection.py that loads, stores
# or deletes a *shared* attribute is a scheduling point while an execution's
# window is open.  INSTRUCTION events are armed per code object; the callback
# returns DISABLE for every other offset, so the steady-state cost is one
# Python call per shared access and nothing elsewhere.

_OFFS = {}
_SHARED = [frozenset()]
_TOOL = 3


def shared_names(source):
    """Attribute names stored or deleted anywhere in the module outside an
    __init__ method (self.X = ..., self.connection.X = ..., ...options.X =
    ...).  Computed from the AST of the tree under test, so a field that a
    change starts to mutate becomes a scheduling point by itself.  Names only
    ever assigned inside __init__ are set before the object is shared and
    are left out (reads of self.connection / self._write_lock would otherwise
    dominate the point count)."""
    import ast
    names = set()

    def visit(node, in_init):
        if isinstance(node, (ast.FunctionDef, ast.AsyncFunctionDef)):
            in_init = node.name == '__init__'
        targets = []
        if isinstance(node, ast.Assign):
            targets = node.targets
        elif isinstance(node, (ast.AugAssign, ast.AnnAssign)):
            targets = [node.target]
        elif isinstance(node, ast.Delete):
            targets = node.targets
        if not in_init:
            for t in targets:
                for sub in ast.walk(t):
                    if isinstance(sub, ast.Attribute) and \
                            isinstance(sub.ctx, (ast.Store, ast.Del)):
                        # only state reachable from self (self.X,
                        # self.connection.options.X, ...): attributes of
                        # freshly built local objects (packets, exceptions)
                        # are not shared between threads
                        root = sub.value
                        while isinstance(root, ast.Attribute):
                            root = root.value
                        if isinstance(root, ast.Name) and root.id == 'self':
                            names.add(sub.attr)
        for child in ast.iter_child_nodes(node):
            visit(child, in_init)
    visit(ast.parse(source), False)
    return frozenset(names)


def _code_objects(module):
    """All code objects defined in the module (methods, lambdas, closures)."""
    import types
    seen, out, stack = set(), [], []

    def add_obj(o):
        f = getattr(o, '__func__', o)
        if isinstance(o, property):
            for g in (o.fget, o.fset, o.fdel):
                if g is not None:
                    add_obj(g)
            return
        c = getattr(f, '__code__', None)
        if isinstance(c, types.CodeType):
            stack.append(c)
    for o in vars(module).values():
        if isinstance(o, type) and o.__module__ == module.__name__:
            for m in vars(o).values():
                add_obj(m)
        elif getattr(o, '__module__', None) == module.__name__:
            add_obj(o)
    while stack:
        c = stack.pop()
        if c in seen or c.co_filename != module.__file__:
            continue
        seen.add(c)
        out.append(c)
        for k in c.co_consts:
            if isinstance(k, types.CodeType):
                stack.append(k)
    return out


def _offsets(code):
    offs = {}
    for ins in dis.get_instructions(code):
        if ins.opname in ('LOAD_ATTR', 'STORE_ATTR', 'DELETE_ATTR',
                          'LOAD_METHOD') and ins.argval in _SHARED[0]:
            offs[ins.offset] = (ins.argval, ins.opname in ('STORE_ATTR',
                                                           'DELETE_ATTR'))
    return offs


def _on_instruction(code, offset):
    hit = _OFFS.get(code, {}).get(offset)
    if hit is None:
        return sys.monitoring.DISABLE
    S = CUR
    if S is None or not S.tracing or not S.window or S.aborting \
            or S.in_state_fn:
        return None
    me = S.by_ident.get(threading.get_ident())
    if me is None or me is not S.current:
        return None
    name, store = hit
    S.point(('w:' if store else 'r:') + name)
    if store:
        me.dirty = True
    return None


_LINE_CODES = set()


def add_line_points(*functions):
    """Make every source line of the given functions (of the tree under
    test) a scheduling point while a window is open - for code whose shared
    accesses the attribute scan cannot see (getattr/setattr with computed
    names, list methods)."""
    mon = sys.monitoring
    for f in functions:
        code = getattr(getattr(f, '__func__', f), '__code__', None)
        if code is None or code in _LINE_CODES:
            continue
        _LINE_CODES.add(code)
        cur_ev = mon.get_local_events(_TOOL, code)
        mon.set_local_events(_TOOL, code, cur_ev | mon.events.LINE)


def _on_line(code, line):
    if code not in _LINE_CODES:
        return sys.monitoring.DISABLE
    S = CUR
    if S is None or not S.tracing or not S.window or S.aborting \
            or S.in_state_fn:
        return None
    me = S.by_ident.get(threading.get_ident())
    if me is None or me is not S.current:
        return None
    S.point('line:%s:%d' % (code.co_name, line))
    me.dirty = True         # a line may have stored something
    return None


def configure_tracing(conn_module):
    with open(conn_module.__file__) as f:
        _SHARED[0] = shared_names(f.read())
    mon = sys.monitoring
    try:
        mon.use_tool_id(_TOOL, 'vf-pysched')
    except ValueError:
        pass
    mon.register_callback(_TOOL, mon.events.INSTRUCTION, _on_instruction)
    mon.register_callback(_TOOL, mon.events.LINE, _on_line)
    _OFFS.clear()
    n = 0
    for code in _code_objects(conn_module):
        offs = _offsets(code)
        if offs:
            _OFFS[code] = offs
            mon.set_local_events(_TOOL, code, mon.events.INSTRUCTION)
            n += len(offs)
    return _SHARED[0], n


# ---------------------------------------------------------------------------
# Installing the scheduler into pyCraft's connection module

_INSTALLED = [False]


def install(conn_module):
    """Rebind the module-level seams of minecraft.networking.connection once
    per process.  Controlled objects dispatch to the current Sched."""
    if _INSTALLED[0]:
        return
    C = conn_module
    C.RLock = CRLock
    C.deque = CDeque
    NT = C.NetworkingThread

    def start(self):
        S = cur()
        if getattr(self, '_vf_agent', None) is not None:
            raise RuntimeError('threads can only be started once')
        run = type(self).run.__get__(self)      # the class's run()
        self._vf_agent = S.spawn(run, name='net', obj=self, thread=self)
        S.event('thread-start', self._vf_agent.id)
        S.point('thread.start')

    def join(self, timeout=None):
        a = getattr(self, '_vf_agent', None)
        if a is None:
            raise RuntimeError('cannot join thread before it is started')
        cur().join(a)

    def is_alive(self):
        S = cur()
        a = getattr(self, '_vf_agent', None)
        S.point('thread.is_alive')
        return a is not None and a.state != 'done'

    NT.start, NT.join, NT.is_alive = start, join, is_alive
    configure_tracing(C)
    _INSTALLED[0] = True


class Execution(object):
    """What one run leaves behind for the explorer."""
    __slots__ = ('points', 'choices', 'result', 'failure', 'steps',
                 'preemptions', 'switches', 'state_keys', 'diverged')


_EXEC_COUNTER = [0]


def run_execution(body, prefix=(), tracing=False, horizon=20000, expect=None,
                  visited=None, budget=0, lenient=False):
    """Run body(S) as the driver agent under a fresh scheduler."""
    global CUR
    if CUR is not None:
        raise ToolError('nested executions')
    S = Sched(prefix, horizon, tracing, expect)
    _EXEC_COUNTER[0] += 1
    S.visited, S.budget, S.exec_id = visited, budget, _EXEC_COUNTER[0]
    S.lenient = lenient
    CUR = S
    x = Execution()
    x.result = x.failure = None
    try:
        try:
            x.result = body(S)
        except Failure as f:
            x.failure = (f.kind, f.detail)
    finally:
        try:
            S.finish()
        finally:
            CUR = None
    if S.failure and S.failure[0] == 'tool':
        raise ToolError('inside agent: %s' % S.failure[1])
    x.diverged = S.diverged or len(S.choices) < len(S.prefix)
    if len(S.choices) < len(S.prefix) and not lenient and not (
            x.failure and x.failure[0] == 'pruned'):
        raise Nondeterminism('execution ended after %d choice points, prefix '
                             'has %d' % (len(S.choices), len(S.prefix)))
    x.points, x.choices = S.points, S.choices
    x.steps, x.preemptions, x.switches = S.steps, S.preemptions, S.switches
    x.state_keys = S.state_keys
    return x
